"""The AST-guided matcher (spec/FrontTrace.tla) as a service: does this token sequence yield
this AST under the C grammar?"""
import json
import os
import re

from . import common
from .common import tlc, tlc_ok, workdir, rmtree
from . import ptrace
from .proj import flatten


def parse_with_tokens(text, filename="x.c"):
    """Returns (tokens [[ty, val, line, col, file]...], ast or None, exception or None)."""
    tr, ast, exc = ptrace.record(text, filename)
    toks = []
    for ev in tr["ev"]:
        if ev["e"] == "tok" and ev["tok"]:
            toks.append(list(ev["tok"]) + [ev["st"]["file"]])
    return toks, ast, exc


def lex_tokens(text, filename="x.c", types=()):
    """Tokens of a text by the stand-alone lexer (used for generated text, whose typedef names are known)."""
    from .lexrun import lex_trace
    got = lex_trace(text, filename, types)
    return [list(c["tok"]) + [c["st"]["file"]] for c in got["calls"] if c["tok"]]


def case_of(toks, ast):
    nodes, root = flatten(ast)
    return dict(toks=toks, nodes=nodes, root=root)


_COMPLEX_ATOMIC = re.compile(r"_Atomic\s*\(\s*[^()]*[*\[(]")


def in_domain(text):
    """The matcher covers _Atomic(type-name) only for type names without declarator."""
    return _COMPLEX_ATOMIC.search(text) is None


def in_domain_tokens(vals):
    """Same rule on a list of token spellings."""
    n = len(vals)
    for i in range(n - 1):
        if vals[i] == "_Atomic" and vals[i + 1] == "(":
            depth = 0
            for j in range(i + 1, n):
                v = vals[j]
                if v == "(":
                    depth += 1
                    if depth > 1:
                        return False
                elif v == ")":
                    depth -= 1
                    if depth == 0:
                        break
                elif v in ("*", "["):
                    return False
    return True


def validate(cases, label, check_coords=False, workers=8, diag=False, spans=False):
    """Returns (accepted ids, coord notes {tid: [(kind, node)]}, TLCResult).  With spans=True the
    result carries res.spans = {tid: [(node, first, last)]} for every matched expression node."""
    wd = workdir("match")
    try:
        p = os.path.join(wd, "traces.json")
        with open(p, "w") as f:
            json.dump(cases, f)
        cfg = ("CONSTANTS CheckCoords = %s\nEmitSpans = %s\nINIT Init\nNEXT Next\nINVARIANT Acc\n" % (
            "TRUE" if check_coords else "FALSE", "TRUE" if spans else "FALSE")
               + ("INVARIANT Diag\n" if diag else "") + "CHECK_DEADLOCK FALSE\n")
        res = tlc("FrontTrace", cfg, wd=wd, env=dict(TRACES=p), workers=workers, xss="512m", timeout=3000, deque=True)
        tlc_ok(res, "FrontTrace " + label)
        coords = {}
        for n in res.notes:
            if n.startswith('<<"COORD"'):
                parts = [x.strip().strip('"') for x in n.strip("<>").split(",")]
                coords.setdefault(int(parts[1]), set()).add((parts[2], int(parts[3])))
        res.spans = {}
        if spans:
            for n in res.notes:
                if n.startswith('<<"SPAN"'):
                    parts = [x.strip() for x in n.strip("<>").split(",")]
                    res.spans.setdefault(int(parts[1]), []).append((int(parts[2]), int(parts[3]), int(parts[4])))
        return res.acc, coords, res
    finally:
        rmtree(wd)


def explain(case):
    acc, _, res = validate([case], "diag", workers=1, diag=True)
    far = 0
    for n in res.notes:
        if n.startswith('<<"AT"'):
            far = max(far, int(n.strip("<>").split(", ")[2]))
    toks = case["toks"]
    around = " ".join(t[1] for t in toks[max(0, far - 6):far - 1]) + "  >>> " + \
             " ".join(t[1] for t in toks[far - 1:far + 4])
    return "matcher stops at token %d/%d: ... %s" % (far, len(toks), around)
