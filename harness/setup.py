"""setup_cmd: SANY-parse every module, byte-compile the harness.  Offline, files on disk only."""
import compileall
import glob
import os
import sys

from .common import SPEC, VERIF, sany


def main():
    bad = 0
    for p in sorted(glob.glob(os.path.join(SPEC, "*.tla"))):
        ok, out = sany(p)
        if not ok:
            bad += 1
            print("SANY FAILED:", p)
            print(out[-2000:])
    ok = compileall.compile_dir(os.path.join(VERIF, "harness"), quiet=1)
    os.makedirs(os.path.join(VERIF, "evidence"), exist_ok=True)
    os.makedirs(os.path.join(VERIF, ".work"), exist_ok=True)
    print("setup: %d modules parsed, %d failed, harness compiled=%s" % (
        len(glob.glob(os.path.join(SPEC, "*.tla"))), bad, bool(ok)))
    return 0 if (bad == 0 and ok) else 2
