#!/bin/sh
# Regression of the detection suite: every kept seeded change is re-applied to a fresh worktree of /repo HEAD and
# its check(s) re-run (development tool).  usage: seedall.sh [ids...]
cd /verif || exit 2
ids="$@"; [ -z "$ids" ] && ids=$(ls seeded)
for s in $ids; do
  c=$(echo $s | cut -d- -f1)
  echo "== $s"; /venv/bin/python -m harness.seedrun $s /verif/seeded/$s $c 2>&1 | grep -v "^{" | tail -2
done
