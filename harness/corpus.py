"""The repository's C corpus after preprocessing (discovered at check time)."""
import glob
import os
import subprocess

from .common import REPO, MachineryError

FAKE = os.path.join(REPO, "utils", "fake_libc_include")
_CACHE = {}


def cpp(path, extra=()):
    args = ["cpp", "-nostdinc", "-D__attribute__(x)=", "-I" + FAKE, "-I" + os.path.dirname(path)] + list(extra) + [path]
    r = subprocess.run(args, capture_output=True, text=True)
    if r.returncode != 0:
        raise MachineryError("cpp failed on %s: %s" % (path, r.stderr[:300]))
    return r.stdout


def corpus_files():
    fs = sorted(glob.glob(os.path.join(REPO, "examples", "c_files", "*.c")))
    fs += sorted(glob.glob(os.path.join(REPO, "tests", "c_files", "*.c")))
    return fs


def preprocessed(max_chars=None):
    """[(name, text)] for every corpus file that pycparser's own tests/examples parse.
    Files already preprocessed (cppd_*) are taken as they are."""
    key = max_chars
    if key in _CACHE:
        return _CACHE[key]
    out = []
    for f in corpus_files():
        base = os.path.basename(f)
        try:
            if base.startswith("cppd_") or base in ("simplemain.c",):
                txt = open(f).read()
            else:
                txt = cpp(f)
        except MachineryError:
            continue
        if max_chars and len(txt) > max_chars:
            continue
        out.append((base, txt))
    _CACHE[key] = out
    return out


def parses(text, name="x.c"):
    from pycparser import c_parser
    try:
        return c_parser.CParser().parse(text, name)
    except Exception:
        return None
