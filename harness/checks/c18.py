r"""C18: structurally malformed input is always rejected.

Spec level: spec/Brackets.tla proves by exhaustion (TLC, all bracket strings up to MaxLen) that
every single-bracket deletion / duplication / kind swap of a balanced string is unbalanced;
spec/ParserTrace.tla (End action) states Accepted => Balanced /\ all consumed /\ no '#' token.
spec -> code: every unbalanced bracket string is embedded in expression, declarator and
statement templates and must be rejected; every single-bracket mutant and every single-position
injection of non-token text / foreign directives into programs derived by TLC (CGram.tla) and
into the corpus must be rejected with ParseError; token sequences of spec/TokSeq.tla that the
spec marks MustReject must be rejected.  code -> spec: accepted programs' hook traces are
validated against ParserTrace (AcceptedIsWellFormed).
"""
import json
import random

from .. import common
from ..common import Ctx, tlc, tlc_ok, pmap
from ..outcome import classify
from .. import corpus, matcher, ptrace
from . import c01, c06

BR = list("()[]{}")
TEMPLATES = [("void f(void) { x = a %s ; }", " "), ("void f(void) { x = a %s ; }", " a "),
             ("int x %s ;", " "), ("int x %s ;", " 3 "), ("void f(void) { %s }", " "), ("void f(void) { %s }", " ; "),
             # inside a parenthesised declarator, where the parser looks ahead for the declared name
             ("int ( * x %s ) ( void ) ;", " "), ("void f ( int ( * %s ) ( int ) ) ;", " "), ("int ( * %s x ) [ 2 ] ;", " "),
             # directly after a #pragma line (with and without a backslash at its end - pragma text is free-form, the NEXT
             # line is not) and after the _Pragma operator
             ("void f(void) {\n#pragma omp parallel \\\n %s \n ; }", " "), ("void f(void) {\n#pragma omp parallel\n %s \n ; }", " "),
             ("#pragma once \\\nint x %s ;", " "), ("void f(void) { _Pragma(\"omp\") %s ; }", " ")]
PRAGMA_HOSTS = ["void f(void) {\n#pragma omp parallel \\\n x = 1 %s ;\n}\n", "#pragma pack(1) \\\nint x %s;\n",
                "void f(void) {\n#pragma p\\\n%s\n}\n", "#pragma p \\\n#pragma q \\\n int y; %s\n"]
# text after the line number / file name / flags of a line directive, on the directive's own line
DIRHEADS = ['# 3 "f.c" ', '#line 3 "f.c" ', '# 3 "f.c" 1 2 ', '# 3 ', '#line 3 ', '  #  3  "f.c"  1  ']
DIRTAILS = ["@", "`", "\\", "/*", "//", "/* c */", "#define X 1", "x", ")", "}", "1 @", "1.5", "-1", "'a'", "int y;", "1 \"g\""]
NONTOKENS = ["@", "`", "\\", "/*", "//", "\n#define X 1\n", "\n#if 1\n", "\n#include <a.h>\n", "\n#error x\n"]


def balanced(text):
    """The bracket machine of Brackets.tla / TokSeq.tla on the brackets of a text."""
    st = []
    close = {")": "(", "]": "[", "}": "{"}
    for ch in text:
        if ch in "([{":
            st.append(ch)
        elif ch in close:
            if not st or st[-1] != close[ch]:
                return False
            st.pop()
    return not st


def _brk_work(chunk):
    bad = []
    n = 0
    for e in chunk:
        if e["bal"]:
            continue
        for tmpl, sep in TEMPLATES:
            src = tmpl % sep.join(e["s"])
            if balanced(src):
                continue        # the template's own brackets pair with the string's: the text as a whole is balanced
            n += 1
            k, d = classify(src, "f.c", check_loc=False)
            if k == "ok":
                bad.append(("accepted unbalanced bracket string", src))
            elif k.startswith("bad"):
                bad.append(("unbalanced bracket string not rejected with ParseError: %s %s" % (k, d), src))
    return n, bad


def mutants(vals, inserts=True):
    for i, v in enumerate(vals):
        if v in BR:
            yield vals[:i] + vals[i + 1:]
            yield vals[:i] + [v] + vals[i:]
            for w in BR:
                if w != v:
                    yield vals[:i] + [w] + vals[i + 1:]
    # a stray bracket of any kind at any token boundary (small programs only: 6 x (n + 1) texts)
    if inserts and len(vals) <= 60:
        for i in range(len(vals) + 1):
            for w in BR:
                yield vals[:i] + [w] + vals[i:]


def _mut_work(args):
    vals, seed, with_inject = args
    rnd = random.Random(seed)
    bad = []
    n = 0
    base = " ".join(vals)
    if classify(base, "f.c", check_loc=False)[0] != "ok":
        return 0, bad
    for mv in mutants(vals):
        src = " ".join(mv)
        n += 1
        k, d = classify(src, "f.c", check_loc=False)
        if k == "ok":
            bad.append(("accepted single-bracket mutant", src))
        elif k.startswith("bad"):
            bad.append(("bracket mutant not rejected with ParseError: %s %s" % (k, d), src))
    # positions are not identities: the same mutants with every token on a line of its own, all renumbered to the
    # same line (a sample: the programs that contain a parenthesised type name)
    if any(v in ("sizeof", "_Alignof", "int") for v in vals) and "(" in vals and not any(v.endswith("\n") or v.startswith("\n") for v in vals):
        from .. import layout
        ms = list(mutants(vals, inserts=False))
        for mv in rnd.sample(ms, min(len(ms), 10)):
            src = layout.render(mv, "sameline", rnd)
            n += 1
            k, d = classify(src, "f.c", check_loc=False)
            if k == "ok":
                bad.append(("accepted single-bracket mutant laid out with all tokens at one position", src))
            elif k.startswith("bad") and k != "bad:location-prefix":      # (the location names the line markers' files)
                bad.append(("bracket mutant (one position for all tokens) not rejected with ParseError: %s %s" % (k, d), src))
    if with_inject:
        for _ in range(min(len(vals) + 1, 12)):
            i = rnd.randrange(len(vals) + 1)
            # keep clear of string / character literals and pragma lines on the same physical line
            x = rnd.choice(NONTOKENS)
            src = " ".join(vals[:i] + [x] + vals[i:])
            n += 1
            k, d = classify(src, "f.c", check_loc=False)
            if k == "ok":
                bad.append(("accepted injection of %r" % x, src))
            elif k.startswith("bad") and k != "bad:location-prefix":
                bad.append(("injection of %r not rejected with ParseError: %s %s" % (x, k, d), src))
        for _ in range(4):
            i = rnd.randrange(len(vals) + 1)
            x = "\n" + rnd.choice(DIRHEADS) + rnd.choice(DIRTAILS) + "\n"
            src = " ".join(vals[:i] + [x] + vals[i:])
            n += 1
            k, d = classify(src, "f.c", check_loc=False)
            if k == "ok":
                bad.append(("accepted line directive with trailing text %r" % x, src))
            elif k.startswith("bad") and k != "bad:location-prefix":
                bad.append(("line directive with trailing text %r not rejected with ParseError: %s %s" % (x, k, d), src))
    return n, bad


def injectable(vals):
    """Injection positions must not fall inside a #pragma line (its text is free-form)."""
    return not any("pragma" in v for v in vals)


def run(tier):
    ctx = Ctx("C18", tier, "model_checking")
    rnd = random.Random(ctx.seed)
    ctx.cov["rule"] = ("unbalanced bracket strings (TLC, Brackets.tla) in 13 templates; single-bracket deletions, duplications "
                       "and kind swaps plus single-position injections of non-token text and foreign directives into "
                       "programs derived by TLC (CGram.tla) and into the corpus; MustReject token sequences (TokSeq.tla); a "
                       "case is one malformed text that has to be rejected")
    L = 6 if tier == "quick" else 8
    ex = []
    res = tlc("Brackets", "CONSTANT MaxLen = %d\nINIT Init\nNEXT Next\nINVARIANT MutantsUnbalanced\nINVARIANT EvenWhenBalanced\n"
              "INVARIANT Export\nCHECK_DEADLOCK FALSE\n" % L, on_export=ex.append, timeout=3000)
    tlc_ok(res, "Brackets")
    if res.violated:
        raise common.MachineryError("Brackets: %s violated" % res.violated)
    ctx.add_tlc(res, "Brackets: all strings len<=%d, MutantsUnbalanced" % L)
    chunks = [ex[i:i + 500] for i in range(0, len(ex), 500)]
    n = 0
    for cnt, bad in pmap(_brk_work, chunks, chunk=1):
        n += cnt
        for sig, src in bad:
            ctx.fail(sig + " :: " + src[:120], dict(kind="text", text=src))
    nunb = sum(1 for e in ex if not e["bal"])
    ctx.count(n, nontrivial=nunb, traces=n)
    ctx.note("population_bracket_strings", dict(strings=len(ex), unbalanced=nunb, embedded_texts=n))
    # non-token text / foreign directives on the line after a #pragma line that ends in a backslash
    npr = 0
    for host in PRAGMA_HOSTS:
        for nt in NONTOKENS + ["'", '"', "/* c */ ", "\n#define X 1 \\\n 2\n"]:
            src = host % nt
            npr += 1
            k, d = classify(src, "f.c", check_loc=False)
            if k == "ok":
                ctx.fail("accepted non-token text after a pragma line :: " + repr(src)[:120], dict(kind="text", text=src))
            elif k.startswith("bad"):
                ctx.fail("non-token text after a pragma line not rejected with ParseError: %s %s :: %s" % (k, d, repr(src)[:100]),
                         dict(kind="text", text=src))
    ctx.count(npr, nontrivial=npr, traces=npr)
    ctx.note("population_after_pragma_line", npr)
    # mutants of derived programs and of the corpus
    progs = [e["toks"] for e in c01.derive(ctx, "CGram fuel<=2", 2)]
    progs = rnd.sample(progs, 2500 if tier == "quick" else len(progs))
    sim = [e["toks"] for e in c01.derive(ctx, "CGram simulated", 12, simulate=300 if tier == "quick" else 6000,
                                         depth=400, seed=ctx.seed + 19)]
    # every triple of productions of the declaration sub-language (parameter declarations, type names, members)
    p3d = [e["toks"] for e in c01.derive(ctx, "CGram fuel<=3 from the roots param / typename / struct", 3,
                                         roots=["param", "typename", "struct"])]
    p3d = rnd.sample(p3d, 4000 if tier == "quick" else 40000)
    jobs = [(t, rnd.randrange(1 << 30), injectable(t)) for t in progs + sim + p3d]
    ctoks = []
    for name, txt in corpus.preprocessed(30000 if tier == "quick" else None):
        tk, ast, exc = matcher.parse_with_tokens(txt, name)
        if ast is not None and not any(t[0] in ("PPPRAGMA",) for t in tk):
            ctoks.append([t[1] for t in tk])
    for vals in ctoks:
        # corpus files are large: mutate a window of brackets per job
        idx = [i for i, v in enumerate(vals) if v in BR]
        rnd.shuffle(idx)
        jobs.append((vals, rnd.randrange(1 << 30), True))
    n = 0
    for cnt, bad in pmap(_mut_work, jobs, chunk=8):
        n += cnt
        for sig, src in bad:
            ctx.fail(sig + " :: " + src[:160], dict(kind="text", text=src))
    ctx.count(n, nontrivial=len(jobs), traces=n)
    ctx.note("population_program_mutants", dict(programs=len(jobs), mutants_and_injections=n))
    # token sequences the spec marks MustReject
    seqs = c06.enumerate_seqs(ctx, "TokSeq len<=%d over core" % (3 if tier == "quick" else 4), c06.CORE + c06.FOREIGN,
                              3 if tier == "quick" else 4)
    seqs = [s for s in seqs if any(s["must"])]
    if tier == "quick":
        seqs = rnd.sample(seqs, min(len(seqs), 50000))
    c06.run_population(ctx, seqs, "MustReject sequences", prop="C18")
    # code -> spec: accepted programs are well formed
    traces = []
    for t in rnd.sample(progs, 200 if tier == "quick" else 2000):
        src = " ".join(t)
        if ptrace.ascii_ok(src):
            tr, ast, exc = ptrace.record(src, "f.c")
            if ast is not None:
                traces.append(tr)
    acc, res = ptrace.validate(traces, "accepted programs", R=64)
    ctx.add_tlc(res, "ParserTrace (AcceptedIsWellFormed) on accepted programs")
    for i, tr in enumerate(traces, 1):
        if i not in acc:
            ctx.fail("accepted program whose trace violates ParserTrace: %s" % ptrace.explain(tr, R=64),
                     dict(kind="text", text=tr["text"]))
    ctx.count(len(traces), traces=len(traces))
    ctx.sample(dict(unbalanced_string_in_templates=[t % s.join(["(", "]"]) for t, s in TEMPLATES[:3]]))
    ctx.cov["exhaustive"] = True
    ctx.assumptions += ["injection positions are token boundaries of programs without #pragma lines (pragma text is free-form)",
                        "lone quotes are covered by the character-level populations of C09/C10, where the rest of the line decides whether they are lone"]
    return ctx.finish()


def replay(path):
    r = json.load(open(path))["replay"]
    k, d = classify(r["text"], "f.c", check_loc=False)
    if k != "ParseError":
        print("VIOLATION property=C18 replay=%s" % path)
        print("  what: outcome", k, d)
        return 1
    return 0
