"""C08: regenerated C means the same as the original to a C compiler.

Population supplied by TLC: spec/CTyped.tla, the typed sub-machine of the grammar, derives
function bodies that are type-correct by construction over a fixed prelude (all operators, all
statement kinds, structs / unions / enums / bit-fields, function pointers, designated
initializers incl. enum constants as array designators, compound literals, qualifiers, storage
classes); exhaustively for small fuel, by -simulate for large.  Functions are batched into files
together with file-scope declaration templates; each file and the preprocessed corpus is compiled
with gcc -O0 -S and -O1 -S, parsed, regenerated (both generator configurations), compiled again:
the assembly text must be identical.  A disagreement is localised to single functions.
"""
import hashlib
import json
import os
import random
import re
import subprocess

from .. import common
from ..common import Ctx, tlc, tlc_ok, pmap, workdir, rmtree
from .. import corpus

PRELUDE = """
struct S { int a; int b : 3; struct { int q; } in; int arr[4]; };
union U { int i; char c; };
enum E { E0, E1 = 5, E2 };
typedef int T;
typedef struct S SS;
extern int g(int, int);
extern int (*fp)(int);
extern int *gp;
static int arr[8];
extern struct S gs;
extern struct S *ps;
extern union U gu;
volatile int vol;
const int cst = 3;
extern int * const * gq[2];
extern int * volatile * (*gr)(void);
extern int * const * * gqq;
"""

# file-scope declarations (each self-contained after PRELUDE); {n} makes names unique per file
FILE_DECLS = [
    "static const unsigned long fs@_a = 10UL;",
    "extern volatile int fs@_b;",
    "int fs@_c[3][2] = {{1, 2}, {3, 4}, {5, 6}};",
    "int *fs@_d[2], (*fs@_e)[2], **fs@_f;",
    "int (*fs@_g(int a, char *b))[4];",
    "int (*fs@_h[2])(int, ...);",
    "static inline int fs@_i(int a) { return a + 1; }",
    "_Noreturn void fs@_j(void);",
    "struct fs@_K { unsigned a : 1, b : 2; int : 0; unsigned c : 5; } fs@_k = {1, 2, 3};",
    "union fs@_L { int i; float f; char c[4]; } fs@_l = {.f = 1.5f};",
    "enum fs@_M { fs@_M0, fs@_M1 = 1 << 3, fs@_M2 = fs@_M1 | 1 };",
    "int fs@_n[] = {[2] = 5, [0] = 1};",
    "int fs@_o[E2 + 1] = {[E1] = 5, [E0] = 1};",
    "struct fs@_P { int a; int b; } fs@_p1 = {1, 2}, fs@_p2 = {.b = 3};",
    "struct S fs@_q = {.a = 1, .in.q = 2, .arr = {1, 2}, .arr[3] = 4};",
    "char fs@_r[] = \"a\\\"b\\n\" \"cd\", *fs@_s = \"x\";",
    "const char *const fs@_t[2] = {\"a\", \"b\"};",
    "long long fs@_u = 0x7FFFFFFFFFLL; unsigned fs@_v = 017u; double fs@_w = 1.5e-3; float fs@_x = .5f;",
    "_Alignas(16) int fs@_y; _Alignas(double) char fs@_z;",
    "static _Thread_local int fs@_aa;",
    "_Static_assert(sizeof(int) >= 2, \"int\");",
    "typedef int (*fs@_fn)(SS *, T); fs@_fn fs@_ab;",
    "int fs@_ac(int n, int a[n]);",
    "int fs@_ad(int a[static 3], int b[const], char *restrict c);",
    "_Atomic int fs@_ae; _Atomic(int) fs@_af;",
    "int fs@_ag(void) { int a = 1; { int a = 2; return a; } }",
    "int fs@_ah(a, b) int a; char b; { return a + b; }",
    "void fs@_ai(void) { struct S s = gs; SS *p = &s; p->in.q = sizeof s + sizeof(SS) + sizeof p->arr / sizeof p->arr[0]; }",
    "int fs@_aj = (int)sizeof(struct { int a; char b; }), fs@_ak = _Alignof(long double);",
    "int fs@_al = L'a' + 'b' + '\\n' + '\\x41';",
]


def normalise(asm):
    # .file/.ident name the input; at -O0 gcc also emits `nop` where two statements would otherwise share an address -
    # which depends on the *line layout* of the source, not on its meaning (an empty statement on its own line gets one)
    return "\n".join(l for l in asm.splitlines()
                     if not l.startswith("\t.file") and not l.startswith("\t.ident") and l.strip() != "nop")


def gcc_asm(text, opt):
    r = subprocess.run(["gcc", "-std=gnu11", "-Werror=incompatible-pointer-types", "-fno-builtin", opt, "-S", "-o", "-", "-x", "c", "-"], input=text,
                       capture_output=True, text=True)
    if r.returncode:
        return None, r.stderr[:400]
    return normalise(r.stdout), None


def fn_text(k, toks):
    return "int f%d(int x, int y) { %s }\n" % (k, " ".join(toks))


def compare_text(text, name):
    """Returns (status, detail): ok | skip:<why> | diff:<opt, rp> | gen-reject:<msg>"""
    from pycparser import c_parser, c_generator
    base = {}
    for opt in ("-O0", "-O1"):
        a, err = gcc_asm(text, opt)
        if a is None:
            return "skip:original does not compile", err
        base[opt] = a
    try:
        ast = c_parser.CParser().parse(text, name)
    except Exception as e:
        return "skip:not parsed", "%s: %s" % (type(e).__name__, str(e)[:100])
    for rp in (False, True):
        try:
            gen = c_generator.CGenerator(reduce_parentheses=rp).visit(ast)
        except Exception as e:
            return "generator raised", "%s: %s" % (type(e).__name__, str(e)[:100])
        for opt in ("-O0", "-O1"):
            a, err = gcc_asm(gen, opt)
            if a is None:
                return "regenerated text rejected by gcc (rp=%s)" % rp, err.replace("\n", " | ")[:300]
            if a != base[opt]:
                return "assembly differs (%s, rp=%s)" % (opt, rp), ""
    return "ok", ""


def _file_job(args):
    name, fns, decls = args
    units = [(fn_text(k, t), sorted(f)) for k, (t, f) in enumerate(fns)] + [(d + "\n", ["filedecl"]) for d in decls]
    out = []

    def examine(us):
        text = PRELUDE + "".join(u[0] for u in us)
        st, detail = compare_text(text, name)
        if st == "ok":
            return
        if len(us) == 1:
            out.append((st, detail, us[0][0], us[0][1]))
            return
        mid = len(us) // 2
        n0 = len(out)
        examine(us[:mid])
        examine(us[mid:])
        if len(out) == n0:
            out.append((st, detail + " (only in combination)", text[len(PRELUDE):][:300], []))

    examine(units)
    return len(units), out


def derive(ctx, label, fuel, simulate=None, seed=None, exclude=()):
    ex = []
    res = tlc("CTyped", "CONSTANTS Fuel = %d\nExclude = {%s}\nINIT Init\nNEXT Next\n%sINVARIANT Export\nCHECK_DEADLOCK FALSE\n" % (
        fuel, ",".join('"%s"' % x for x in exclude), "" if simulate else "INVARIANT BalancedCount\n"),
        on_export=ex.append, simulate=simulate,
        depth=600 if simulate else None, seed=seed, timeout=3000, workers=8 if simulate else None)
    tlc_ok(res, "CTyped " + label)
    if res.violated:
        raise common.MachineryError("CTyped: %s violated" % res.violated)
    ctx.add_tlc(res, label)
    seen, uniq = set(), []
    for e in ex:
        k = " ".join(e["toks"])
        if k not in seen:
            seen.add(k)
            uniq.append((e["toks"], e["feat"]))
    uniq.sort(key=lambda x: " ".join(x[0]))
    return uniq


def run(tier):
    ctx = Ctx("C08", tier, "translation_validation")
    rnd = random.Random(ctx.seed)
    # productions hitting a recorded finding are kept out of the bulk (they would make every file differ) and are
    # exercised on their own below
    known = ["local_desig_enum"]
    fns = derive(ctx, "CTyped fuel<=2 (all production pairs)", 2, exclude=known)
    sim = derive(ctx, "CTyped simulated (fuel 30)", 30, simulate=300 if tier == "quick" else 5000, seed=ctx.seed + 31, exclude=known)
    if tier == "quick":
        sim = rnd.sample(sim, min(len(sim), 3000))
    special = derive(ctx, "CTyped fuel<=1 incl. productions with recorded findings", 1)
    special = [x for x in special if set(known) & set(x[1])]
    allf = fns + sim
    rnd.shuffle(allf)
    per = 40
    jobs = []
    for i in range(0, len(allf), per):
        n = i // per
        decls = [d.replace("@", str(n)) for d in rnd.sample([d for d in FILE_DECLS if "_p1" not in d and "[E1]" not in d], 6)]
        jobs.append(("t%d.c" % n, allf[i:i + per], decls))
    # every file-scope template at least once, and the functions using productions with recorded findings
    jobs.append(("decls.c", [], [d.replace("@", "9999") for d in FILE_DECLS]))
    jobs.append(("special.c", special, []))
    total = 0
    nfiles = 0
    disagreements = 0
    skipped = 0
    for n, out in pmap(_file_job, jobs, chunk=1, force=True):
        total += n
        nfiles += 1
        for st, detail, src, feat in out:
            if st.startswith("skip:original"):
                raise common.MachineryError("the typed machine derived a program gcc rejects: %s :: %s" % (src[:300], detail))
            if st.startswith("skip"):
                skipped += 1
                ctx.drift_note("derived program not parsed by pycparser (C01's concern): " + detail[:80])
                continue
            disagreements += 1
            ctx.fail("%s %s feat=%s" % (st, re.sub(r"<stdin>:\d+:\d+", "LOC", detail)[:160], ",".join(feat)),
                     dict(kind="c08", src=PRELUDE + src))
    # the corpus
    cfiles = 0
    for name, txt in corpus.preprocessed(None):
        st, detail = compare_text(txt, name)
        if st.startswith("skip"):
            continue
        cfiles += 1
        total += 1
        if st != "ok":
            disagreements += 1
            ctx.fail("corpus file %s: %s %s" % (name, st, detail[:160]), dict(kind="c08", src=txt))
    ctx.cov["programs"] = total
    ctx.cov["disagreements_checked"] = disagreements
    ctx.cov["samples"] = [dict(function=fn_text(0, allf[0][0]), productions=sorted(allf[0][1])),
                          dict(file_scope_declaration=FILE_DECLS[12].replace("@", "1"))]
    ctx.count(total, nontrivial=total, traces=total)
    ctx.cov["rule"] = ("functions derived by TLC from spec/CTyped.tla (exhaustive for fuel<=2, simulated at fuel 30) batched 40 per "
                       "file with 6 file-scope declaration templates; corpus files that gcc accepts after preprocessing with the "
                       "fake headers; gcc -O0 -S and -O1 -S of original vs regenerated text, both generator configurations")
    ctx.note("files", dict(generated=nfiles, corpus=cfiles, functions_and_declarations=total, not_parsed=skipped))
    ctx.assumptions += ["gcc 12 with -std=gnu11 -w -fno-builtin; .file/.ident lines removed from the assembly"]
    return ctx.finish()


def replay(path):
    r = json.load(open(path))["replay"]
    st, detail = compare_text(r["src"], "r.c")
    if st not in ("ok",) and not st.startswith("skip"):
        print("VIOLATION property=C08 replay=%s" % path)
        print("  what:", st, detail)
        return 1
    return 0
