"""Trace validation of real CLexer runs against spec/CLexTrace.tla (code -> spec).

Used by C09 (corpus + random re-layouts), C11, C17 and C19 (preprocessed headers)."""
import json
import os
import random

from .. import common
from ..common import tlc, tlc_ok, workdir, rmtree
from ..lexrun import lex_trace
from .. import corpus


def to_trace(text, filename, types, got=None):
    got = got or lex_trace(text, filename, types)
    ev = []
    for c in got["calls"]:
        st = dict(c["st"])
        st["pend"] = st["pend"] or []
        ev.append(dict(tok=c["tok"] or [], st=st, errs=c["errs"]))
    return dict(text=text, file=filename, types=sorted(types), ev=ev), got


def ascii_ok(text):
    return all((32 <= ord(c) < 127) or c in "\n\t" for c in text)


def validate(traces, label, workers=8, diag=False):
    """traces: list of trace dicts.  Returns (accepted ids (1-based), TLCResult)."""
    wd = workdir("lextr")
    try:
        p = os.path.join(wd, "traces.json")
        with open(p, "w") as f:
            json.dump(traces, f)
        cfg = "INIT TInit\nNEXT TNext\nINVARIANT Acc\n" + ("INVARIANT Diag\n" if diag else "") + "CHECK_DEADLOCK FALSE\n"
        res = tlc("CLexTrace", cfg, wd=wd, env=dict(TRACES=p), workers=workers, xss="512m", timeout=3000)
        tlc_ok(res, "CLexTrace " + label)
        return res.acc, res
    finally:
        rmtree(wd)


def explain(trace):
    """Re-run one rejected trace with the Diag invariant and report the deepest event reached."""
    acc, res = validate([trace], "diag", workers=1, diag=True)
    deepest = 0
    mode = "?"
    for n in res.notes:
        if n.startswith('<<"AT"'):
            parts = n.strip("<>").split(", ")
            li = int(parts[2])
            if li >= deepest:
                deepest, mode = li, parts[3].strip('"')
    ev = trace["ev"]
    nxt = ev[deepest - 1] if 0 < deepest <= len(ev) else None
    prev = ev[deepest - 2] if deepest >= 2 else None
    return "rejected at event %d/%d (mode %s): logged %s after %s" % (
        deepest, len(ev), mode, json.dumps(nxt)[:300], json.dumps(prev)[:200])


def relayouts(rnd, n):
    """Random texts over tokens and gaps, including directives (the trace side of C09/C17)."""
    from .c09 import VOCAB, GAPS
    out = []
    for k in range(n):
        s = ""
        for i in range(rnd.randint(5, 60)):
            s += rnd.choice(VOCAB) + rnd.choice(GAPS if rnd.random() < 0.7 else [" ", "\n"])
        out.append(("layout%d" % k, s))
    return out


def validate_corpus(ctx, tier, extra_texts=()):
    rnd = random.Random(ctx.seed + 17)
    items = []
    cap = 60000 if tier == "quick" else None
    for name, txt in corpus.preprocessed(cap):
        if ascii_ok(txt):
            items.append((name, txt, ()))
    for name, txt in relayouts(rnd, 150 if tier == "quick" else 2000):
        items.append((name, txt, ("tt",)))
    for name, txt in extra_texts:
        items.append((name, txt, ()))
    traces = []
    for name, txt, types in items:
        tr, got = to_trace(txt, name, set(types))
        if not got["terminated"]:
            ctx.fail("lexer did not terminate on %s" % name, dict(kind="lextrace", trace=tr))
            continue
        traces.append(tr)
    acc, res = validate(traces, "corpus")
    ctx.add_tlc(res, "CLexTrace corpus+layouts")
    nev = sum(len(t["ev"]) for t in traces)
    nrej = 0
    for i, tr in enumerate(traces, 1):
        if i not in acc:
            nrej += 1
            why = explain(tr) if nrej <= 5 else "rejected (not diagnosed: more than 5 rejections)"
            ctx.fail("lexer trace of %s not a behaviour of CLex: %s" % (tr["file"], why),
                     dict(kind="lextrace", trace=tr))
    ctx.count(len(traces), nontrivial=len(traces), traces=len(traces))
    ctx.note("lexer_traces", dict(traces=len(traces), token_calls=nev, accepted=len(acc)))
    if traces:
        t = traces[0]
        ctx.sample(dict(trace_of=t["file"], first_events=t["ev"][:3], events=len(t["ev"])))


def replay(path, prop):
    r = json.load(open(path))["replay"]
    tr, got = to_trace(r["trace"]["text"], r["trace"]["file"], set(r["trace"]["types"]))
    acc, _ = validate([tr], "replay", workers=1)
    if 1 not in acc:
        print("VIOLATION property=%s replay=%s" % (prop, path))
        print("  what:", explain(tr))
        return 1
    return 0
