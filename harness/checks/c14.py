"""C14: node classes and tree traversal conform to the declarative AST specification.

spec/AstSchema.tla gives _c_ast.cfg its stated meaning (constructor order, attr_names,
children: singles first, then indexed sequences, absent ones skipped); the class table is
generated from /repo/pycparser/_c_ast.cfg at check time.  TLC enumerates every class x every
subset of optional children absent x sequence lengths None/0/1/2; each exported instance is
built for real and compared.  Traversal: recorded NodeVisitor `visit` events on the ASTs of
TLC-derived programs and of the corpus are validated against spec/Traversal.tla (pre-order
under the spec's Children, interception by visit_X, exactly-once).
"""
import inspect
import io
import json
import os
import random

from .. import common
from ..common import Ctx, tlc, tlc_ok, mc_module, workdir, rmtree, tla_val, REPO
from ..proj import cfg
from .. import corpus, ptrace
from . import c01


def class_table():
    out = []
    for name, fields in cfg().items():
        fs = []
        for f in fields:
            if f.endswith("**"):
                fs.append(dict(n=f[:-2], k="seq"))
            elif f.endswith("*"):
                fs.append(dict(n=f[:-1], k="child"))
            else:
                fs.append(dict(n=f, k="attr"))
        out.append(dict(name=name, fields=fs))
    return out


class _Leaf:
    pass


def check_instance(exp, table):
    from pycparser import c_ast

    class Leaf(c_ast.Node):
        __slots__ = ("tag", "coord", "__weakref__")
        attr_names = ()

        def __init__(self, tag):
            self.tag = tag
            self.coord = None

        def children(self):
            return ()

        def __iter__(self):
            return iter(())

    K = getattr(c_ast, exp["cls"], None)
    if K is None:
        return "class %s of the specification file does not exist" % exp["cls"]
    fields = table[exp["cls"]]
    sig = list(inspect.signature(K.__init__).parameters)[1:]
    if sig != exp["init"]:
        return "%s: constructor takes %s, specification says %s" % (exp["cls"], sig, exp["init"])
    if list(K.attr_names) != exp["attrs"]:
        return "%s: attr_names %s, specification says %s" % (exp["cls"], list(K.attr_names), exp["attrs"])
    args = []
    objs = {}
    for f, v in zip(fields, exp["val"]):
        if f["k"] == "attr":
            args.append("ATTR_" + f["n"])
        elif f["k"] == "child":
            if v == 1:
                o = Leaf(f["n"])
                objs[f["n"]] = o
                args.append(o)
            else:
                args.append(None)
        else:
            if v == 0:
                args.append(None)
            else:
                lst = [Leaf("%s[%d]" % (f["n"], q)) for q in range(v - 1)]
                for q, o in enumerate(lst):
                    objs["%s[%d]" % (f["n"], q)] = o
                args.append(lst)
    obj = K(*args, "COORD")              # positional: fields in declared order, then coord
    if obj.coord != "COORD":
        return "%s: the last positional constructor argument is not coord" % exp["cls"]
    for f, a in zip(fields, args):
        if getattr(obj, f["n"]) is not a:
            return "%s: positional argument for %s landed elsewhere" % (exp["cls"], f["n"])
    got = list(obj.children())
    want = [(nm, objs[nm]) for nm in exp["children"]]
    if [g[0] for g in got] != [w[0] for w in want] or any(g[1] is not w[1] for g, w in zip(got, want)):
        return "%s with %s: children() names %s, specification says %s" % (
            exp["cls"], exp["val"], [g[0] for g in got], exp["children"])
    it = list(iter(obj))
    if len(it) != len(want) or any(a is not w[1] for a, w in zip(it, want)):
        return "%s with %s: iteration differs from children()" % (exp["cls"], exp["val"])
    b = io.StringIO()
    obj.show(buf=b)
    if len(b.getvalue().splitlines()) != 1 + len(want):
        return "%s with %s: show() prints %d lines, %d nodes reachable" % (
            exp["cls"], exp["val"], len(b.getvalue().splitlines()), 1 + len(want))
    for nm, v in zip([f["n"] for f in fields if f["k"] == "attr"], K.attr_names):
        if getattr(obj, v) != "ATTR_" + nm:
            return "%s: attribute %s not stored" % (exp["cls"], nm)
    return None


def spec_children(n, table):
    """Children by the specification (used to build the Traversal node table)."""
    from pycparser import c_ast
    fields = table[type(n).__name__]
    out = []
    for f in fields:
        if f["k"] == "child":
            v = getattr(n, f["n"])
            if v is not None:
                out.append(v)
    for f in fields:
        if f["k"] == "seq":
            for v in getattr(n, f["n"]) or []:
                out.append(v)
    return out


def node_valued_attrs(ast, table):
    """Class.attr names of plain-value fields that hold AST nodes somewhere in this tree."""
    from pycparser import c_ast
    hits = set()
    stack = [ast]
    seen = set()
    while stack:
        n = stack.pop()
        if id(n) in seen:
            continue
        seen.add(id(n))
        for f in table[type(n).__name__]:
            if f["k"] == "attr":
                v = getattr(n, f["n"])
                vs = v if isinstance(v, list) else [v]
                if any(isinstance(x, c_ast.Node) for x in vs):
                    hits.add("%s.%s" % (type(n).__name__, f["n"]))
        stack.extend(spec_children(n, table))
    return hits


def traversal_trace(ast, table, stop=()):
    from pycparser import c_ast, _verif
    # node table by the specification
    ids, nodes = {}, []

    def go(n):
        if id(n) in ids:
            return ids[id(n)]
        nodes.append(None)
        my = len(nodes)
        ids[id(n)] = my
        nodes[my - 1] = dict(k=type(n).__name__, kids=[go(c) for c in spec_children(n, table)])
        return my

    root = go(ast)
    ns = {}
    for cls in stop:
        ns["visit_" + cls] = (lambda self, node: None)
    V = type("V", (c_ast.NodeVisitor,), ns)
    visits = []

    def sink(ev):
        if ev["e"] == "visit":
            visits.append(ids.get(ev["n"], 0))

    prev = _verif.SINK
    _verif.set_sink(sink)
    try:
        V().visit(ast)
    finally:
        _verif.set_sink(prev)
    b = io.StringIO()
    ast.show(buf=b)
    # one line per reachable child slot: a node shared by two parents (struct S {..} x, y;) is reached twice
    size = {}

    def unfolded(i):
        if i not in size:
            size[i] = 1 + sum(unfolded(k) for k in nodes[i - 1]["kids"])
        return size[i]

    return dict(nodes=nodes, root=root, visits=visits, stop=list(stop)), len(b.getvalue().splitlines()), unfolded(root)


def hierarchy_traces(ast, table, rnd):
    """Visitor classes in an inheritance chain A <- B <- C, each adding one visit_X, used one after the other in
    every order (fresh classes per order): interception must depend on the visitor's own class only, never on
    which visitors ran before.  Returns Traversal traces (one per visit)."""
    import itertools
    from pycparser import c_ast, _verif
    present = sorted({type(n).__name__ for n in _all_nodes(ast, table)})
    if len(present) < 4:
        return []
    ks = rnd.sample(present, 3)
    # node table
    ids, nodes = {}, []

    def go(n):
        if id(n) in ids:
            return ids[id(n)]
        nodes.append(None)
        my = len(nodes)
        ids[id(n)] = my
        nodes[my - 1] = dict(k=type(n).__name__, kids=[go(c) for c in spec_children(n, table)])
        return my

    root = go(ast)
    out = []
    for order in itertools.permutations(range(3)):
        A = type("A", (c_ast.NodeVisitor,), {"visit_" + ks[0]: (lambda self, node: None)})
        B = type("B", (A,), {"visit_" + ks[1]: (lambda self, node: None)})
        C = type("C", (B,), {"visit_" + ks[2]: (lambda self, node: None)})
        classes = [(A, ks[:1]), (B, ks[:2]), (C, ks[:3])]
        for idx in order + order[:1]:
            cls, stop = classes[idx]
            visits = []

            def sink(ev):
                if ev["e"] == "visit":
                    visits.append(ids.get(ev["n"], 0))

            prev = _verif.SINK
            _verif.set_sink(sink)
            try:
                cls().visit(ast)
            except Exception as e:  # noqa
                visits.append(0)
            finally:
                _verif.set_sink(prev)
            out.append(dict(nodes=nodes, root=root, visits=visits, stop=list(stop)))
    return out


def _all_nodes(ast, table):
    seen, stack, out = set(), [ast], []
    while stack:
        n = stack.pop()
        if id(n) in seen:
            continue
        seen.add(id(n))
        out.append(n)
        stack.extend(spec_children(n, table))
    return out


def run(tier):
    ctx = Ctx("C14", tier, "model_checking")
    rnd = random.Random(ctx.seed)
    classes = class_table()
    table = {c["name"]: c["fields"] for c in classes}
    ctx.cov["rule"] = ("every class of _c_ast.cfg (%d) x every subset of child fields absent x sequence fields None/[]/1/2 "
                       "elements (TLC, AstSchema.tla); traversals of ASTs of TLC-derived programs and the corpus with and "
                       "without interception; a case is one instance or one traversal" % len(classes))
    wd = workdir("c14")
    try:
        path, sub = mc_module(wd, "AstSchema", dict(Classes=classes))
        ex = []
        res = tlc(path, sub + "INIT Init\nNEXT Next\nINVARIANT ChildrenWellFormed\nINVARIANT Export\nCHECK_DEADLOCK FALSE\n",
                  wd=wd, on_export=ex.append)
        tlc_ok(res, "AstSchema")
        if res.violated:
            raise common.MachineryError("AstSchema: %s violated" % res.violated)
        ctx.add_tlc(res, "AstSchema: all classes x absence subsets x sequence lengths")
    finally:
        rmtree(wd)
    seen_cls = set()
    for e in ex:
        seen_cls.add(e["cls"])
        d = check_instance(e, table)
        if d:
            ctx.fail(d, dict(kind="instance", exp=e))
    from pycparser import c_ast
    real = {n for n, v in vars(c_ast).items() if isinstance(v, type) and issubclass(v, c_ast.Node) and v is not c_ast.Node}
    if real - seen_cls:
        ctx.fail("node classes %s are not in the specification file" % sorted(real - seen_cls), dict(kind="classes"))
    ctx.count(len(ex), nontrivial=len(ex), traces=len(ex))
    ctx.note("population_instances", dict(classes=len(seen_cls), instances=len(ex)))
    ctx.sample(ex[len(ex) // 2])
    # traversals
    from pycparser import c_parser
    progs = [c01.text_of(e["toks"]) for e in c01.derive(ctx, "CGram fuel<=2", 2)]
    progs = rnd.sample(progs, 600 if tier == "quick" else 8000)
    asts = []
    for p in progs:
        try:
            asts.append(c_parser.CParser().parse(p, "t.c"))
        except Exception:
            pass
    from . import c03
    for p in c03.declaration_programs(ctx, rnd, 400 if tier == "quick" else 5000):
        try:
            asts.append(c_parser.CParser().parse(p, "d.c"))
        except Exception:
            pass
    for name, txt in corpus.preprocessed(None):
        try:
            asts.append(c_parser.CParser().parse(txt, name))
        except Exception:
            pass
    traces = []
    names = sorted(table)
    for a in asts:
        stops = [(), (rnd.choice(names),), tuple(rnd.sample(names, 3))]
        for st in stops:
            tr, lines, nn = traversal_trace(a, table, st)
            if st == () and lines != nn:
                why = sorted(node_valued_attrs(a, table))
                ctx.fail("show() prints %d lines for a tree of %d nodes (node-valued attributes: %s)" % (
                    lines, nn, ",".join(why) or "none"), dict(kind="show"))
            traces.append(tr)
    for a in rnd.sample(asts, min(len(asts), 40 if tier == "quick" else 600)):
        traces += hierarchy_traces(a, table, rnd)
    wd = workdir("c14t")
    try:
        p = os.path.join(wd, "traces.json")
        json.dump(traces, open(p, "w"))
        res = tlc("Traversal", "INIT TInit\nNEXT TNext\nINVARIANT Acc\nCHECK_DEADLOCK FALSE\n", wd=wd,
                  env=dict(TRACES=p), workers=8, xss="256m")
        tlc_ok(res, "Traversal")
        ctx.add_tlc(res, "Traversal: pre-order validation of recorded visits")
    finally:
        rmtree(wd)
    for i, tr in enumerate(traces, 1):
        if i not in res.acc:
            ctx.fail("recorded visits (intercepting %s) are not the pre-order of the tree under the specification's Children "
                     "(%d visits, %d nodes)" % (tr["stop"], len(tr["visits"]), len(tr["nodes"])), dict(kind="traversal", stop=tr["stop"]))
    ctx.count(len(traces), nontrivial=len(traces), traces=len(traces))
    ctx.note("population_traversals", dict(trees=len(asts), traversals=len(traces), accepted=len(res.acc)))
    ctx.cov["exhaustive"] = True
    ctx.assumptions += ["the class table is read from _c_ast.cfg by harness/proj.py (30 lines)"]
    return ctx.finish()


def replay(path):
    r = json.load(open(path))["replay"]
    if r.get("kind") == "instance":
        table = {c["name"]: c["fields"] for c in class_table()}
        d = check_instance(r["exp"], table)
        if d:
            print("VIOLATION property=C14 replay=%s" % path)
            print("  what:", d)
            return 1
    return 0
