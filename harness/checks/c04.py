"""C04: an identifier is a type name exactly where C scoping makes it one.

spec -> code: TLC enumerates every declaration history of spec/Scope.tla (C99 6.2.1/6.2.3 over
2 names, nested scopes); each history ends in a probe whose class the standard fixes.  The
history is rendered as C, the probe in each of the four shapes of the property, and the parser's
reading of the probe (declaration / cast / type operand vs expression) must be the standard's.
code -> spec: the hook trace of every rendered program and of the corpus is validated against
spec/ParserTrace.tla (lookup = innermost binding, class frozen at lex time, lookahead safety,
scope/brace agreement).
"""
import json
import random

from .. import common
from ..common import Ctx, tlc, tlc_ok, pmap, mc_module, workdir, rmtree
from .. import ptrace, corpus

ALL_KINDS = {"typedef", "obj", "fdecl", "enum", "enum2", "enumS", "member", "tag", "label", "proto", "forinit",
             "probeI", "probeS", "func", "func0", "funcN", "krfunc", "open", "noise"}
DEV_ITEMS = {"forinit", "krfunc", "enum2", "enumS", "enum", "label"}


# Alternative spellings of an item: same effect on the scope (C99 6.2.1), different declaration syntax.  %n is the
# name, %i the item index (fresh auxiliary names).
SPELL = {
    "typedef": ["typedef int %n;", "typedef int *%n;", "typedef struct { int x; } %n;", "typedef int zt%i, %n;",
                "typedef int %n[2];", "int typedef %n;", "typedef enum { ET%i } %n;", "typedef int (*%n)(int zp%i);"],
    "obj": ["int %n;", "int *%n;", "int %n[2];", "int zo%i, %n;", "int %n = 1;", "enum EO%i { EA%i } %n = EA%i;",
            "enum { EB%i } *%n;", "struct SO%i { int x; } %n;", "int zo%i = 2, *%n = 0;", "const int (*%n)[2];"],
    "fdecl": ["int %n(void);", "int %n();", "int *%n(int);", "int zf%i, %n(int zq%i);"],
    "proto": ["void g%i(int %n);", "void g%i(int %n, ...);", "struct SPr%i { void (*cb)(int %n); };", "void g%i(int %n[]);",
              "void (*gp%i)(int %n);", "int g%i(int zq%i, int *%n);", "void g%i(void (*cb)(int %n));"],
    "func": ["void f(int %n) {", "void f(int *%n) {", "void f(int zq%i, int %n) {", "void f(int %n[]) {", "int f(int %n, ...) {"],
    "funcN": ["int %n(void) {", "int %n() {", "static int *%n(void) {", "%n() {", "void %n(int zq%i) {", "int (%n)(void) {"],
    "func0": ["void f(void) {", "void f() {", "int f() {", "f() {", "static int *f() {"],
    "forinit": ["for (int %n = 0;;) { }", "for (int zq%i = 0, %n = 1;;) ;", "for (int *%n = 0;;) { }"],
    "enum": ["enum { %n };", "enum { %n = 1 };", "enum EE%i { %n, };"],
    "member": ["struct SM%i { int %n; };", "union SM%i { int zm%i; int *%n; };", "struct SM%i { int %n : 2; };"],
    "tag": ["struct %n { int x; };", "union %n { int x; };", "enum %n { ETG%i };"],
    "open": ["{", "{", "if (xx) {", "while (xx) {", "do {", "switch (xx) {"],
}


# items without effect on any scope (Scope.Noise): (spelling at file scope, spelling inside a function)
NOISE = [
    ("int zn%i = sizeof((union { float f; int i; }){ 0 }.i);", "xx = (union { float f; int i; }){ 0 }.i;"),
    ("int zn%i = sizeof(struct { int a; });", "xx = sizeof(struct { int a; });"),
    ("void *zn%i = (struct { int a; } *)0;", "xx = (struct { int a; } *)0 == 0;"),
    ("int zn%i[] = { 1, { 2 } };", "int zn%i[] = { 1, { 2 } };"),
    ("enum { ZE%i };", "enum { ZE%i };"),
    ("struct ZS%i { struct { int a; } in; int b; };", "struct ZS%i { struct { int a; } in; int b; };"),
    ("int zn%i = (xx)(1) + sizeof (xx);", "(xx)(1); sizeof (xx);"),
    ("_Alignas(struct { char c; }) int zn%i;", "_Alignas(struct { char c; }) int zn%i;"),
    ("int zn%i = sizeof (struct { int a; }){ 1 };", "if ((struct { int a; }){ 1 }.a) xx++;"),
]


def spell(k, n, i, variant):
    alts = SPELL[k]
    t = alts[0] if variant is None else alts[variant.randrange(len(alts))]
    return t.replace("%n", str(n)).replace("%i", str(i))


def render(prog, shape, variant=None):
    """C text of a history; the final probe in `shape`; `variant` (a random.Random) picks alternative spellings
    of the items.  Returns (text, probe descriptor)."""
    out = []
    closers = []
    depth = 0
    probe = None
    last = len(prog) - 1
    for i, it in enumerate(prog):
        k = it[0]
        n = it[1] if len(it) > 1 else None
        if k in ("typedef", "obj", "fdecl", "enum", "member", "tag", "proto", "forinit"):
            out.append(spell(k, n, i, variant))
        elif k in ("func", "func0", "funcN"):
            out.append(spell(k, n, i, variant))
            closers.append("}")
            depth += 1
        elif k == "open":
            t = spell(k, n, i, variant)
            out.append(t)
            closers.append("} while (xx);" if t.startswith("do") else "}")
            depth += 1
        elif k == "noise":
            j = i % len(NOISE) if variant is None else variant.randrange(len(NOISE))
            out.append(NOISE[j][1 if depth > 0 else 0].replace("%i", str(i)))
        elif k == "enum2":
            out.append("enum { %s, EZ%d };" % (n, i))
        elif k == "enumS":
            out.append("struct SE%d { enum { %s } e; };" % (i, n))
        elif k == "label":
            out.append("%s: ;" % n)
        elif k == "krfunc":
            out.append("void f(%s) int %s; {" % (n, n))
            closers.append("}")
            depth += 1
        elif k == "close":
            out.append(closers.pop())
            depth -= 1
        elif k == "probeI":
            out.append("int qi%d[] = { sizeof(%s) };" % (i, n))
            if i == last:
                probe = ("sizeof", "qi%d" % i)
        elif k == "probeS":
            out.append("struct SP%d { int m[sizeof(%s)]; };" % (i, n))
            if i == last:
                probe = ("sizeofS", "SP%d" % i)
        elif k == "probe":
            sh = shape if i == last else "sizeof"
            if sh == "sizeof":
                out.append("int q%d = sizeof(%s);" % (i, n))
                pr = ("sizeof", "q%d" % i)
            elif sh == "cast":
                out.append("int c%d = (%s)(xx);" % (i, n))
                pr = ("cast", "c%d" % i)
            elif sh == "star":
                out.append("%s * p%d;" % (n, i))
                pr = ("star", "p%d" % i)
            else:
                out.append("%s (d%d);" % (n, i))
                pr = ("paren", "d%d" % i)
            if i == last:
                probe = pr
    out.extend(reversed(closers))
    return " ".join(out), probe


def shapes_for(prog, depth):
    k = prog[-1][0]
    if k != "probe":
        return ["only"]
    return ["sizeof", "cast", "star", "paren"] if depth > 0 else ["sizeof", "cast"]


def observe(ast, probe):
    """Is the probe read as a type (True) / expression (False) / not found (None)?"""
    from pycparser import c_ast
    kind, name = probe
    res = [None]

    class V(c_ast.NodeVisitor):
        def visit_Decl(self, n):
            if n.name == name:
                if kind in ("star", "paren"):
                    res[0] = True
                elif kind == "sizeof":
                    e = n.init
                    if isinstance(e, c_ast.InitList):
                        e = e.exprs[0]
                    res[0] = isinstance(e.expr, c_ast.Typename)
                elif kind == "cast":
                    res[0] = True if isinstance(n.init, c_ast.Cast) else (
                        False if isinstance(n.init, c_ast.FuncCall) else None)
            self.generic_visit(n)

        def visit_Struct(self, n):
            if kind == "sizeofS" and n.name == name and n.decls:
                res[0] = isinstance(n.decls[0].type.dim.expr, c_ast.Typename)
            self.generic_visit(n)

        def visit_BinaryOp(self, n):
            if kind == "star" and isinstance(n.right, c_ast.ID) and n.right.name == name and n.op == "*":
                res[0] = False
            self.generic_visit(n)

        def visit_FuncCall(self, n):
            if kind == "paren" and n.args and len(n.args.exprs) == 1 and isinstance(n.args.exprs[0], c_ast.ID) \
                    and n.args.exprs[0].name == name:
                res[0] = False
            self.generic_visit(n)

    V().visit(ast)
    return res[0]


def check_history(case):
    from pycparser import c_parser
    import re
    prog = case["prog"]
    fails = []
    final = prog[-1]
    name, truth, mech = final[1], final[2], final[3]
    dev = sorted({it[0] for it in prog if it[0] in DEV_ITEMS})
    import zlib
    vseed = zlib.crc32(json.dumps(prog).encode())
    runs = [(sh, None) for sh in shapes_for(prog, case["depth"])]
    runs += [(sh, random.Random(vseed + j)) for j, (sh, _) in enumerate(list(runs))]
    for sh, variant in runs:
        src, probe = render(prog, sh, variant)
        try:
            ast = c_parser.CParser().parse(src, "s.c")
        except Exception as e:
            msg = re.sub(r"^s\.c:\d+:\d+: ", "", str(e))
            msg = re.sub(r"'[TU]'", "'N'", msg)
            msg = re.sub(r"before: \S+", "before: X", msg)
            fails.append(("reject shape=%s exc=%s msg=%s mech_rejects=%s devitems=%s" % (
                sh, type(e).__name__, msg[:70], "yes" if case["rej"] else "no", ",".join(dev)), src))
            continue
        got = observe(ast, probe)
        if got is None:
            fails.append(("probe not found shape=%s" % sh, src))
        elif got != truth:
            fails.append(("probe shape=%s truth=%s got=%s explained=%s devitems=%s" % (
                sh, "type" if truth else "expr", "type" if got else "expr",
                "yes" if got == mech else "no", ",".join(dev)), src))
    return fails


def _work(chunk):
    out = []
    n = 0
    for case in chunk:
        f = check_history(case)
        n += 2 * len(shapes_for(case["prog"], case["depth"]))
        if f:
            out.append((case, f))
    return len(chunk), n, out


def enumerate_histories(ctx, label, names, items, depth, kinds, simulate=None, seed=None):
    wd = workdir("c04")
    try:
        path, sub = mc_module(wd, "Scope", dict(Names=set(names), MaxItems=items, MaxDepth=depth, Kinds=set(kinds)))
        exports = []
        invs = ("INVARIANT TypeOK\nINVARIANT InnermostWins\nINVARIANT Refines\nINVARIANT RejectOnlyByDeviation\n"
                "PROPERTY CloseRestores\n") if simulate is None else ""
        res = tlc(path, sub + "INIT Init\nNEXT Next\n" + invs + "INVARIANT Export\nCHECK_DEADLOCK FALSE\n", wd=wd,
                  on_export=exports.append, timeout=3000, simulate=simulate, depth=items + 2 if simulate else None,
                  seed=seed, workers=8 if simulate else None)
        tlc_ok(res, "Scope " + label)
        if res.violated:
            raise common.MachineryError("Scope %s: spec property %s violated" % (label, res.violated))
        ctx.add_tlc(res, label)
        exports.sort(key=lambda e: json.dumps(e["prog"]))
        return exports
    finally:
        rmtree(wd)


def run(tier):
    ctx = Ctx("C04", tier, "model_checking")
    rnd = random.Random(ctx.seed)
    ctx.cov["rule"] = ("every history of declarations (typedef / object / function / enumerator / tag / member / label / "
                       "prototype parameter / for-init / K&R parameter) of 2 names across file, function and nested block "
                       "scopes within MaxItems, ending in a probe; each rendered with every probe shape applicable "
                       "(T * x; (T)(x); sizeof(T); T (x); and sizeof inside initializer braces / struct bodies); "
                       "a case is a distinct history")
    plans = [("2 names, <=4 items, depth 2, all item kinds", ["T", "U"], 4, 2, ALL_KINDS,
              30000 if tier == "quick" else None)]
    if tier == "quick":
        plans.append(("1 name, <=6 items, depth 2, core kinds", ["T"], 6, 2,
                      {"typedef", "obj", "enum", "func", "func0", "funcN", "open", "forinit", "label", "proto", "tag", "member"}, 20000))
    else:
        plans.append(("2 names, <=5 items, depth 2, all item kinds", ["T", "U"], 5, 2, ALL_KINDS, None))
        plans.append(("1 name, <=7 items, depth 3", ["T"], 7, 3,
                      {"typedef", "obj", "enum", "func", "func0", "funcN", "open", "forinit", "krfunc", "enum2"}, None))
    plans.append(("1 name, <=7 items, depth 2, scope-neutral constructs between the declarations", ["T"], 7, 2,
                  {"typedef", "obj", "func0", "open", "noise"}, 25000 if tier == "quick" else 200000))
    protocol_model(ctx, tier)
    traced = []
    for label, names, items, depth, kinds, sample in plans:
        exports = enumerate_histories(ctx, label, names, items, depth, kinds)
        if sample and len(exports) > sample:
            exports = rnd.sample(exports, sample)
        traced += rnd.sample(exports, min(len(exports), 150 if tier == "quick" else 1500))
        replay_histories(ctx, exports, label)
    sim = enumerate_histories(ctx, "simulated histories of 12 items", ["T", "U"], 12, 3, ALL_KINDS,
                              simulate=2000 if tier == "quick" else 40000, seed=ctx.seed + 3)
    seen, uniq = set(), []
    for e in sim:
        k = json.dumps(e["prog"])
        if k not in seen:
            seen.add(k)
            uniq.append(e)
    replay_histories(ctx, uniq, "simulated")
    monitor(ctx, tier, traced)
    ctx.cov["exhaustive"] = True
    ctx.assumptions += ["spec/Scope.tla is C99 6.2.1/6.2.3 for ordinary identifiers; prototype parameters never bind "
                        "(stated by the property)"]
    return ctx.finish()


def protocol_model(ctx, tier):
    """spec level: the lexer/parser protocol of ScopeImpl.tla - ClassCorrect holds under the lookahead discipline and
    is violated without it (the second run is the vacuity guard)."""
    toks = 8 if tier == "quick" else 10
    base = "CONSTANTS Names = {\"T\"}\nMaxToks = %d\nK = %d\nDiscipline = %s\nINIT Init\nNEXT Next\n" \
           "INVARIANT ClassCorrect\nINVARIANT TableCorrect\nCHECK_DEADLOCK FALSE\n"
    res = tlc("ScopeImpl", base % (toks, 3, "TRUE"), timeout=3000)
    tlc_ok(res, "ScopeImpl with discipline")
    if res.violated:
        raise common.MachineryError("ScopeImpl: %s violated although the discipline is on" % res.violated)
    ctx.add_tlc(res, "ScopeImpl: all programs <=%d tokens, lookahead K=3, Discipline=TRUE (ClassCorrect, TableCorrect)" % toks)
    res = tlc("ScopeImpl", base % (6, 2, "FALSE"), timeout=3000)
    if res.violated != "ClassCorrect":
        raise common.MachineryError("vacuity: ScopeImpl without the discipline does not violate ClassCorrect")
    ctx.note("protocol_model", "ClassCorrect holds with the lookahead discipline (K=3) and is violated without it (K=2): "
                               "the discipline is necessary; on the code it is ParserTrace.LookaheadSafe")


def replay_histories(ctx, exports, label):
    chunks = [exports[i:i + 300] for i in range(0, len(exports), 300)]
    n = np = 0
    for cnt, nparse, fails in pmap(_work, chunks, chunk=1):
        n += cnt
        np += nparse
        for case, fl in fails:
            for sig, src in fl:
                ctx.fail(sig, dict(kind="history", case=case, src=src))
    ctx.count(np, nontrivial=n, traces=np)
    ctx.note("population_" + label, dict(histories=n, parses=np))
    if exports:
        e = exports[len(exports) // 2]
        ctx.sample(dict(history=e["prog"], text=render(e["prog"], shapes_for(e["prog"], e["depth"])[-1])[0]))


def monitor(ctx, tier, cases):
    """code -> spec: hook traces of rendered histories and the corpus against ParserTrace."""
    traces = []
    names = []
    for c in cases:
        src, _ = render(c["prog"], shapes_for(c["prog"], c["depth"])[-1])
        tr, ast, exc = ptrace.record(src, "s.c")
        traces.append(tr)
        names.append(src)
    for name, txt in corpus.preprocessed(40000 if tier == "quick" else None):
        if ptrace.ascii_ok(txt):
            tr, ast, exc = ptrace.record(txt, name)
            traces.append(tr)
            names.append(name)
    acc, res = ptrace.validate(traces, "C04 monitor", R=64)
    ctx.add_tlc(res, "ParserTrace on rendered histories + corpus")
    nrej = 0
    for i, tr in enumerate(traces, 1):
        if i not in acc:
            nrej += 1
            why = ptrace.explain(tr, R=64) if nrej <= 5 else "(not diagnosed)"
            ctx.fail("parser trace of %r is not a behaviour of ParserTrace: %s" % (names[i - 1][:80], why),
                     dict(kind="ptrace", text=tr["text"], file=tr["file"]))
    ctx.count(len(traces), nontrivial=len(traces), traces=len(traces))
    ctx.note("parser_traces", dict(traces=len(traces), events=sum(len(t["ev"]) for t in traces), accepted=len(acc)))


def replay(path):
    r = json.load(open(path))["replay"]
    if r["kind"] == "history":
        f = check_history(r["case"])
        bad = [x for x in f]
        for sig, src in bad:
            print("VIOLATION property=C04 replay=%s" % path)
            print("  what:", sig, "::", src)
        return 1 if bad else 0
    tr, ast, exc = ptrace.record(r["text"], r["file"])
    acc, _ = ptrace.validate([tr], "replay", R=64, workers=1)
    if 1 not in acc:
        print("VIOLATION property=C04 replay=%s" % path)
        print("  what:", ptrace.explain(tr, R=64))
        return 1
    return 0
