"""C19: every fake libc header preprocesses and parses via parse_file.

spec/Pipeline.tla fixes the argv parse_file has to hand to cpp for every configuration of
Header x Dialect x ArgForm; TLC enumerates the whole (finite) space.  Each configuration is run
through the real parse_file with a recording stand-in for cpp_path (which logs its argv and
execs the real cpp, adding -std/-nostdinc in the string form, where cpp_args can carry one
option only); argv must be the model's, the parse must succeed, equal preprocessing and parsing
by hand, and every typedef name the fake headers define must be usable as a type afterwards.
code -> spec: the lexer trace of the preprocessed text (heavy linemarker traffic) is validated
against spec/CLexTrace.tla.  Random subsets / orders of headers followed by one declaration per
typedef name of _fake_typedefs.h complete the population.
"""
import json
import os
import random
import re
import stat
import subprocess

from .. import common
from ..common import Ctx, tlc, tlc_ok, pmap, mc_module, workdir, rmtree, REPO
from ..proj import proj

FAKE = os.path.join(REPO, "utils", "fake_libc_include")
DIALECTS = ["c99", "c11", "gnu99", "gnu11"]

SHIM = """#!/bin/sh
# recording stand-in for cpp: logs argv, then runs the real cpp (C19)
printf '%s\\n' "$@" > "$0.argv.$$"
mv "$0.argv.$$" "$0.argv"
if [ -n "$SHIM_EXTRA" ]; then exec cpp $SHIM_EXTRA "$@"; else exec cpp "$@"; fi
"""


def headers():
    out = []
    for d, _, fs in os.walk(FAKE):
        for f in fs:
            out.append(os.path.relpath(os.path.join(d, f), FAKE))
    return sorted(out)


def fake_typedef_names():
    """Names defined by the top-level typedefs of _fake_typedefs.h (brace-depth aware scan)."""
    txt = open(os.path.join(FAKE, "_fake_typedefs.h")).read()
    txt = re.sub(r"/\*.*?\*/", " ", txt, flags=re.S)
    txt = "\n".join(l for l in txt.splitlines() if not l.lstrip().startswith("#"))
    names, depth, cur = [], 0, []
    for ch in txt:
        if ch == "{":
            depth += 1
        elif ch == "}":
            depth -= 1
        if ch == ";" and depth == 0:
            stmt = "".join(cur).strip()
            cur = []
            if stmt.startswith("typedef"):
                m = re.search(r"(\w+)\s*(\[[^\]]*\]\s*)*$", stmt)
                if m:
                    names.append(m.group(1))
        else:
            cur.append(ch)
    return names


def one(args):
    h, d, form, argv_model, wd = args
    import pycparser
    from pycparser import parse_file, c_parser, c_ast
    sub = os.path.join(wd, "j%d" % os.getpid())
    os.makedirs(sub, exist_ok=True)
    src = os.path.join(sub, "t.c")
    import zlib
    # every third configuration makes cpp talk on stderr while succeeding (a #warning, a macro redefinition): what
    # parse_file parses is cpp's standard output, nothing else
    noisy = zlib.crc32(("%s|%s|%s" % (h, d, form)).encode()) % 3 == 0
    with open(src, "w") as f:
        f.write("#include <%s>\n" % h)
        if noisy:
            f.write("#define VERIF_M 1\n#define VERIF_M 2\n#warning verif: harmless\nint verif_after_warning;\n")
    shim = os.path.join(sub, "cppshim")
    if not os.path.exists(shim):
        with open(shim, "w") as f:
            f.write(SHIM)
        os.chmod(shim, os.stat(shim).st_mode | stat.S_IEXEC)
    # the string form passes ONE argument, whatever it contains: the include directory is reached through a
    # path with a blank in it
    spaced = os.path.join(sub, "inc dir")
    if not os.path.exists(spaced):
        os.symlink(FAKE, spaced)
    if form == "list":
        cpp_args = ["-std=" + d, "-nostdinc", "-I" + FAKE]
        os.environ.pop("SHIM_EXTRA", None)
    else:
        cpp_args = "-I" + spaced
        os.environ["SHIM_EXTRA"] = "-std=%s -nostdinc" % d
    # cpp's chatter on stderr is not wanted on the check's own stderr
    devnull, saved = os.open(os.devnull, os.O_WRONLY), os.dup(2)
    os.dup2(devnull, 2)
    try:
        ast = parse_file(src, use_cpp=True, cpp_path=shim, cpp_args=cpp_args)
    except Exception as e:
        return (h, d, form, "parse_file raised %s: %s" % (type(e).__name__, str(e)[:100]), None)
    finally:
        os.dup2(saved, 2)
        os.close(saved)
        os.close(devnull)
    argv = open(shim + ".argv").read().split("\n")[:-1]
    want = [a.replace("<FILE>", src) for a in argv_model[1:]]
    if form == "str":
        want = [("-I" + spaced) if a == "-I" + FAKE else a for a in want]
    if argv != want:
        return (h, d, form, "argv handed to cpp is %s, the model says %s" % (argv, want), None)
    # by hand
    text = subprocess.check_output(["cpp", "-std=" + d, "-nostdinc", "-I" + (spaced if form == "str" else FAKE), src], text=True,
                                   stderr=subprocess.DEVNULL)
    try:
        byhand = c_parser.CParser().parse(text, src)
    except Exception as e:
        return (h, d, form, "parsing cpp output by hand raised %s" % type(e).__name__, None)
    if proj(byhand, coords=True) != proj(ast, coords=True):
        return (h, d, form, "parse_file result differs from preprocessing and parsing by hand", None)
    tds = [n.name for n in ast.ext if isinstance(n, c_ast.Typedef)]
    return (h, d, form, None, (text if (d == "c99" and form == "list") else None, tds))


def subsets_job(args):
    hs, d, names, wd = args
    from pycparser import parse_file, c_ast
    sub = os.path.join(wd, "s%d" % os.getpid())
    os.makedirs(sub, exist_ok=True)
    src = os.path.join(sub, "u.c")
    with open(src, "w") as f:
        for h in hs:
            f.write("#include <%s>\n" % h)
        # a varying number of filler declarations shifts the uses against whatever the parser does every so many tokens
        import zlib
        for i in range(zlib.crc32((" ".join(hs) + d).encode()) % 29):
            f.write("int zfill%d;\n" % i)
        for i, n in enumerate(names):
            f.write("%s v%d;\n" % (n, i))
            f.write("%s *vp%d, (*vg%d)(%s), va%d[2];\n" % (n, i, i, n, i))
            f.write("_Alignas(16) %s vl%d; static const %s vq%d;\n" % (n, i, n, i))
            f.write("void f%d(void) { %s * p%d; (%s)0; sizeof(%s); }\n" % (i, n, i, n, n))
    try:
        ast = parse_file(src, use_cpp=True, cpp_args=["-std=" + d, "-nostdinc", "-I" + FAKE])
    except Exception as e:
        return "headers %s (%s) + uses of every type name they define: %s: %s" % (hs[:4], d, type(e).__name__, str(e)[:100])
    decls = {n.name: n for n in ast.ext if isinstance(n, c_ast.Decl) and n.name and n.name.startswith("v")}
    if len(decls) != 6 * len(names):
        return "headers %s (%s): %d of the %d declarations that use the headers' type names are in the AST" % (
            hs[:4], d, len(decls), 6 * len(names))
    for i, n in enumerate(names):
        dd = decls.get("v%d" % i)
        if dd is None:
            return "declaration 'v%d' using typedef %s missing from the AST" % (i, n)
    fdefs = [n for n in ast.ext if isinstance(n, c_ast.FuncDef) and n.decl.name.startswith("f")]
    for fd in fdefs:
        items = fd.body.block_items
        if not (isinstance(items[0], c_ast.Decl) and isinstance(items[1], c_ast.Cast)
                and isinstance(items[2], c_ast.UnaryOp) and isinstance(items[2].expr, c_ast.Typename)):
            return "a fake typedef name is not treated as a type in %s" % fd.decl.name
    return None


def run(tier):
    ctx = Ctx("C19", tier, "exploration")
    rnd = random.Random(ctx.seed)
    hs = headers()
    wd = workdir("c19")
    try:
        path, sub = mc_module(wd, "Pipeline", dict(Headers=set(hs), Dialects=set(DIALECTS), IncDir=FAKE, CppPath="cppshim"))
        cfgs = []
        res = tlc(path, sub + "INIT Init\nNEXT Next\nINVARIANT ArgvWellFormed\nINVARIANT Export\nCHECK_DEADLOCK FALSE\n", wd=wd,
                  on_export=cfgs.append)
        tlc_ok(res, "Pipeline")
        if res.violated:
            raise common.MachineryError("Pipeline: %s violated" % res.violated)
        ctx.add_tlc(res, "Pipeline: %d headers x %d dialects x 2 argument forms" % (len(hs), len(DIALECTS)))
        ctx.cov["rule"] = ("the whole configuration space of Pipeline.tla (every file under utils/fake_libc_include x 4 dialects x "
                           "{str, list}), plus random subsets/orders of headers followed by uses of every typedef name of "
                           "_fake_typedefs.h; a case is one parse_file call")
        jobs = [(c["h"], c["d"], c["f"], c["argv"], wd) for c in cfgs]
        results = pmap(one, jobs, chunk=8)
        texts = []
        ntd = 0
        tdmap = {}
        for h, d, f, err, extra in results:
            if not err and extra:
                tdmap.setdefault(h, set()).update(extra[1])
        for h, d, f, err, extra in results:
            if err:
                ctx.fail("%s -std=%s cpp_args as %s: %s" % (h, d, f, err), dict(kind="config", h=h, d=d, f=f))
            elif extra:
                if extra[0] is not None:
                    texts.append((h, extra[0]))
                ntd = max(ntd, len(extra[1]))
        ctx.count(len(jobs), nontrivial=len(jobs), traces=len(jobs))
        ctx.note("configurations", dict(total=len(jobs), headers=len(hs)))
        ctx.cov["exhaustive"] = True
        # random subsets followed by uses of every typedef name
        names = fake_typedef_names()
        nsub = 24 if tier == "quick" else 500
        sj = []
        for _ in range(nsub):
            k = rnd.randint(1, 12)
            sub_hs = rnd.sample(hs, k)
            if "_fake_typedefs.h" not in sub_hs and not any(True for _ in sub_hs):
                continue
            extra_names = sorted({n for h in sub_hs for n in tdmap.get(h, ())} - set(names))
            sj.append((sub_hs + ["stddef.h"], rnd.choice(DIALECTS), names + extra_names, wd))
        for r in pmap(subsets_job, sj, chunk=1):
            if r:
                ctx.fail(r, dict(kind="subset"))
        ctx.count(len(sj), nontrivial=len(sj), traces=len(sj))
        ctx.note("random_header_subsets", dict(runs=len(sj), typedef_names_used=len(names)))
        # ordered pairs: every header that defines type names of its own (beyond what all headers share), before and
        # after every other header; all the names either header defines alone must be usable after both
        common_names = set(tdmap.get("_fake_typedefs.h", ()))       # what (nearly) every header defines
        own = {h: sorted(v - common_names) for h, v in tdmap.items() if v - common_names}
        few = sorted(common_names)[:5]
        pj = []
        for h in sorted(own):
            others = [g for g in hs if g != h]
            if tier == "quick":
                others = [g for g in others if g in own] + rnd.sample([g for g in others if g not in own], min(30, len([g for g in others if g not in own])))
            for g in others:
                # only names that h or g defines when included alone (internal files such as _fake_defines.h define none)
                nm = sorted(set(own[h]) | set(own.get(g, []))) + [x for x in few if x in tdmap.get(h, ()) or x in tdmap.get(g, ())]
                d = rnd.choice(DIALECTS)
                pj.append(([h, g], d, nm, wd))
                pj.append(([g, h], d, nm, wd))
        for r in pmap(subsets_job, pj, chunk=4):
            if r:
                ctx.fail("ordered pair: " + r, dict(kind="subset"))
        ctx.count(len(pj), nontrivial=len(pj), traces=len(pj))
        ctx.note("ordered_header_pairs", dict(runs=len(pj), headers_with_type_names_of_their_own={h: len(v) for h, v in own.items()}))
        # code -> spec: lexer traces of preprocessed headers
        from . import lextrace
        tsel = texts if tier == "thorough" else rnd.sample(texts, min(len(texts), 25))
        traces = []
        for h, t in tsel:
            if lextrace.ascii_ok(t):
                tr, got = lextrace.to_trace(t, "t.c", set())
                traces.append(tr)
        acc, res = lextrace.validate(traces, "cpp output of headers")
        ctx.add_tlc(res, "CLexTrace on the preprocessed text of %d headers" % len(traces))
        for i, tr in enumerate(traces, 1):
            if i not in acc:
                ctx.fail("lexer trace of a preprocessed header rejected: %s" % lextrace.explain(tr), dict(kind="lextrace"))
        ctx.count(len(traces), traces=len(traces))
        ctx.sample(dict(configuration=cfgs[0]))
    finally:
        rmtree(wd)
    ctx.assumptions += ["cpp (gcc 12) is an uninterpreted function of its argv; in the string form the stand-in adds -std/-nostdinc "
                        "because a string cpp_args is ONE argv element (that is what Argv says)"]
    return ctx.finish()


def replay(path):
    print("replay: re-run ./check C19 (configurations are enumerated exhaustively)")
    return 0
