"""C01: every valid C99 / supported-C11 translation unit is accepted.

TLC enumerates the complete derivations of the grammar machine spec/CGram.tla (C99 Annex A +
the documented C11 productions, with the typedef-name rule) exhaustively by fuel (every ordered
pair / triple of non-default productions in every nesting the grammar allows) and by
-simulate beyond; each derived program must be accepted by CParser.parse.  The spec itself is
validated against gcc: a derived program gcc rejects with a *syntax* error is a machinery error.
"""
import json
import random
import re
import subprocess

from .. import common
from ..common import Ctx, tlc, tlc_ok, pmap

SYNTAX_ERR = re.compile(r"error: (expected|stray|missing terminating|unterminated|two or more data types|"
                        r"multiple storage classes|both .* in declaration specifiers)")


def text_of(toks):
    return " ".join(toks).replace(" \n", "\n").replace("\n ", "\n")


def _work(chunk):
    from pycparser import c_parser
    bad = []
    for e in chunk:
        src = text_of(e["toks"])
        try:
            c_parser.CParser().parse(src, "f.c")
        except Exception as x:
            msg = re.sub(r"^f\.c(:\d+:\d+)?: ", "", str(x))
            msg = re.sub(r"before: .*", "before: X", msg)
            bad.append((e, "rejected exc=%s msg=%s feat=%s" % (type(x).__name__, msg[:60], ",".join(e["feat"])), src))
    return len(chunk), bad


def _gcc(src):
    # the expression leaf `a` is declared for gcc only (an undeclared `a * a` derails its recovery)
    r = subprocess.run(["gcc", "-std=c11", "-fsyntax-only", "-w", "-x", "c", "-"], input="int a; " + src,
                       capture_output=True, text=True)
    if r.returncode == 0:
        return None
    # only the first diagnostic counts: what follows a semantic error (say `static` on a block-scope function
    # declaration, after which gcc drops the declaration) is an artefact of gcc's recovery
    first = next((l for l in r.stderr.splitlines() if "error:" in l), "")
    m = SYNTAX_ERR.search(first)
    return r.stderr[:300] if m else None


ALL_ROOTS = ["tu", "ext", "item", "exprstmt", "init", "struct", "param", "typename"]


def derive(ctx, label, fuel, simulate=None, depth=None, seed=None, roots=None):
    exports = []
    res = tlc("CGram", "CONSTANTS Fuel = %d\nRootSet = {%s}\nINIT Init\nNEXT Next\nINVARIANT Export\nCHECK_DEADLOCK FALSE\n" % (
        fuel, ",".join('"%s"' % r for r in (roots or ALL_ROOTS))),
              on_export=exports.append, simulate=simulate, depth=depth, seed=seed, timeout=3000,
              workers=8 if simulate else None)
    tlc_ok(res, "CGram " + label)
    ctx.add_tlc(res, label)
    seen, uniq = set(), []
    for e in exports:
        k = " ".join(e["toks"])
        if k not in seen:
            seen.add(k)
            uniq.append(e)
    uniq.sort(key=lambda e: " ".join(e["toks"]))     # TLC workers print in no particular order
    return uniq


def replay_programs(ctx, progs, label):
    chunks = [progs[i:i + 300] for i in range(0, len(progs), 300)]
    n = 0
    for cnt, bad in pmap(_work, chunks, chunk=1):
        n += cnt
        for e, sig, src in bad:
            ctx.fail(sig, dict(kind="program", toks=e["toks"], feat=e["feat"], src=src))
    ctx.count(n, nontrivial=n, traces=n)
    ctx.note("population_" + label, n)


def run(tier):
    ctx = Ctx("C01", tier, "model_checking")
    rnd = random.Random(ctx.seed)
    ctx.cov["rule"] = ("complete derivations of spec/CGram.tla: exhaustive for fuel (number of non-default productions) "
                       "within the bound, TLC -simulate beyond; a case is a distinct token sequence")
    progs = derive(ctx, "fuel<=2 (all production pairs)", 2)
    replay_programs(ctx, progs, "fuel<=2")
    allp = list(progs)
    if tier == "quick":
        # every triple of productions in the declaration sub-language (parameter declarations, type names, members)
        p3d = derive(ctx, "fuel<=3 from the roots param / typename / struct (all production triples)", 3,
                     roots=["param", "typename", "struct"])
        replay_programs(ctx, p3d, "fuel<=3 declaration roots")
        allp += rnd.sample(p3d, 5000)
    if tier == "thorough":
        p3 = derive(ctx, "fuel<=3 (all production triples)", 3)
        replay_programs(ctx, p3, "fuel<=3")
        allp += p3
    sim = derive(ctx, "simulated deep derivations (fuel 12, depth 400)", 12,
                 simulate=1500 if tier == "quick" else 40000, depth=400, seed=ctx.seed + 5)
    replay_programs(ctx, sim, "simulated")
    allp += sim
    # the same programs far from the start of the input (see harness/longunit.py)
    from .. import longunit
    snippets = [text_of(e["toks"]) for e in rnd.sample(allp, min(len(allp), 8000 if tier == "quick" else 80000))]
    units = longunit.make_units(snippets, rnd, 160 if tier == "quick" else 1500)
    n = 0
    for cnt, bad in pmap(longunit.check_unit, [("", u) for u in units], chunk=2):
        n += cnt
        for sig, text in bad:
            ctx.fail("long unit: " + sig, dict(kind="unit", text=text))
    ctx.count(len(units), nontrivial=len(units), traces=n)
    ctx.note("long_units", dict(units=len(units), programs=n))
    for e in rnd.sample(allp, 3):
        ctx.sample(dict(text=text_of(e["toks"]), productions=e["feat"]))
    # spec validation against gcc (never a VIOLATION)
    sample = rnd.sample(allp, min(len(allp), 1500 if tier == "quick" else 12000))
    res = pmap(_gcc, [text_of(e["toks"]) for e in sample], chunk=16)
    synt = [(e, r) for e, r in zip(sample, res) if r]
    ctx.note("gcc_spec_validation", dict(programs=len(sample), gcc_syntax_errors=len(synt)))
    if synt:
        import collections
        hist = collections.Counter(re.sub(r"<stdin>:\d+:\d+: ", "", SYNTAX_ERR.search(r).string[SYNTAX_ERR.search(r).start():][:70]) for e, r in synt)
        print("gcc syntax-error classes:", hist.most_common(12))
        for e, r in synt[:8]:
            print("   ", text_of(e["toks"])[:200].replace("\n", "\\n"), "::", SYNTAX_ERR.search(r).string[SYNTAX_ERR.search(r).start():][:80].replace("\n", " "))
        e, r = synt[0]
        raise common.MachineryError("the specification derives a program gcc rejects syntactically (%d of %d): %s\n%s" % (
            len(synt), len(sample), text_of(e["toks"]), r))
    ctx.cov["exhaustive"] = True
    ctx.assumptions += ["spec/CGram.tla is C99 Annex A + the documented C11 productions (validated against gcc -fsyntax-only on a sample)"]
    return ctx.finish()


def replay(path):
    r = json.load(open(path))["replay"]
    if r.get("kind") == "unit":
        from pycparser import c_parser
        try:
            c_parser.CParser().parse(r["text"], "u.c")
            print("replay: the unit is accepted; compare its parts by re-running the check")
            return 0
        except Exception as e:
            print("VIOLATION property=C01 replay=%s" % path)
            print("  what: unit rejected:", e)
            return 1
    n, bad = _work([dict(toks=r["toks"], feat=r["feat"])])
    for e, sig, src in bad:
        print("VIOLATION property=C01 replay=%s" % path)
        print("  what:", sig, "::", src)
    return 1 if bad else 0
