"""C15: ASTs survive repr/eval, pickle and deepcopy unchanged.

spec/AstStore.tla is the aliasing model (NoSharing, Independence, CopyEqual); TLC enumerates
every sequence of up to MaxOps actions (repr/eval, pickle per protocol, deepcopy, mutate,
generate over up to three live trees).  Each sequence is replayed on real ASTs - programs derived
by TLC (CGram.tla), the corpus, and literal-heavy programs (quotes, backslashes, non-ASCII) - and
after every action every live tree must be structurally what the model says (equal to its
source's value version, coordinates included for pickle/deepcopy), share no node object with any
other tree and generate the text of its value version.
"""
import copy
import json
import pickle
import random

from .. import common
from ..common import Ctx, tlc, tlc_ok, pmap
from ..proj import proj
from .. import corpus
from . import c01

LITERALS = ['char *s = "a\\"b\\\\c\\n"; char c = \'\\\'\'; char d = \'"\'; int e[] = {}; char *w = L"x\\ty";',
            'char *u = "héllo 世界"; char *v = u8"ü"; int f(void) { return \'\\\\\'; }',
            'struct S; int g(); void h(void) { ; {} } enum E { A }; int (*fp)(void) = 0;',
            '_Alignas(8) int a8; _Alignas(double) char ad; struct A { _Alignas(16) int m; }; void p(void) { _Pragma("omp x") a8 = 1; }',
            # empty child lists (as opposed to absent children): empty struct body, empty initializer, stacked labels
            'struct E {} e; union UE {} ue; struct F; int z[3] = {}; void k(int n) { switch (n) { case 1: case 2: break; case 3: default: ; } }',
            # several declarators sharing one anonymous struct / union / enum specifier (the parser shares the node)
            # braced blocks that start with a pragma, under case / default / if (coordinates must not decide the text)
            'void f(int a) { switch (a) { case 1: {\n#pragma p\n a++; } default: { _Pragma("q") a--; } } if (a) {\n#pragma r\n a++; } while (a) { _Pragma("s") } }',
            'struct { int a; } s1, *s2; enum { EA, EB } e1, e2; void f(void) { union { int u; } u1, u2[2]; } struct { int q; } *g(void), h1;',
            # every specifier family at once, several declarators sharing the specifier lists (storage, alignment, function
            # specifiers, qualifiers): generation must not write into lists the declarators share
            'static _Alignas(16) int sa, sb; extern _Alignas(8) const int ea, *eb; void f(void) { static _Alignas(4) char c1, c2[2]; '
            'register volatile int r1, r2; } static inline _Noreturn void g1(void), g2(void); _Thread_local static _Alignas(8) int t1, t2;',
            'static _Alignas(16) int one; extern _Alignas(double) _Alignas(8) char two; static const volatile int q1, *const q2;',
            '']


def literal_programs():
    """Programs made of every string literal of three chunks and every character constant of two chunks over the
    literal chunk alphabet of C10 (escapes, both quote kinds, backslashes, a non-ASCII character), 40 per program;
    literals the parser rejects are C10's concern and are dropped one by one."""
    import itertools
    from pycparser import c_parser
    chunks = ["a", " ", "\\n", "\\'", '\\"', "\\\\", "\\0", "\\x41", "'", '"', "\u00e9", "%", "{"]
    lits = []
    for pre in ("", "L"):
        for cs in itertools.product(chunks, repeat=3):
            if '"' in cs:
                continue
            lits.append(pre + '"' + "".join(cs) + '"')
        for cs in itertools.product(chunks, repeat=2):
            if "'" in cs:
                continue
            lits.append(pre + "'" + "".join(cs) + "'")
    ok = []
    for lit in lits:
        try:
            c_parser.CParser().parse("int x = sizeof(%s);" % lit, "l.c")
            ok.append(lit)
        except Exception:
            pass
    progs = []
    for i in range(0, len(ok), 40):
        progs.append(" ".join("int v%d = sizeof(%s);" % (j, l) for j, l in enumerate(ok[i:i + 40])))
    return progs, len(ok)


def node_ids(ast):
    """Identities of every node object reachable through ANY slot (not only children(): some plain-value
    fields hold nodes, e.g. Decl.align, Pragma.string)."""
    from pycparser import c_ast
    ids = set()
    stack = [ast]
    while stack:
        n = stack.pop()
        if id(n) in ids:
            continue
        ids.add(id(n))
        for slot in type(n).__slots__:
            if slot in ("coord", "__weakref__"):
                continue
            v = getattr(n, slot, None)
            for x in (v if isinstance(v, (list, tuple)) else [v]):
                if isinstance(x, c_ast.Node):
                    stack.append(x)
    return ids


def mutate(ast, tag):
    """Change one value deep in the tree (and only there)."""
    from pycparser import c_ast
    last = None
    stack = [ast]
    while stack:
        n = stack.pop()
        if isinstance(n, (c_ast.ID, c_ast.Constant, c_ast.TypeDecl)):
            last = n
        stack.extend(c for _, c in n.children())
    if isinstance(last, c_ast.ID):
        last.name = last.name + "_m%d" % tag
    elif isinstance(last, c_ast.Constant):
        last.value = last.value + "" if last.type == "string" else "7%d" % tag
        if last.type == "string":
            last.value = last.value[:-1] + "m%d\"" % tag
    elif isinstance(last, c_ast.TypeDecl) and last.declname:
        last.declname = last.declname + "_m%d" % tag
    else:
        ast.ext.append(c_ast.EmptyStatement())
    return ast


def run_sequence(src, ops, vals):
    """Replays one TLC behaviour on the AST of `src`.  Returns failure text or None."""
    from pycparser import c_parser, c_ast, c_generator
    ns = {k: v for k, v in vars(c_ast).items() if isinstance(v, type)}
    try:
        t0 = c_parser.CParser().parse(src, "s.c")
    except Exception:
        return "skip"
    gen = lambda a: c_generator.CGenerator().visit(a)
    before = proj(t0, coords=True)
    try:
        text_of_val = {1: gen(t0)}
    except Exception:
        return "skip"
    if proj(t0, coords=True) != before:
        return "step 0: generating C text changed the tree it was generated from"
    if gen(t0) != text_of_val[1]:
        return "step 0: generating twice from the same tree gives two texts"
    trees = [t0]
    val = [1]
    projc = [proj(t0, coords=True)]     # per tree, with coordinates
    projn = {1: proj(t0)}
    for step, (how, t) in enumerate(ops, 1):
        t -= 1
        if how == "mutate":
            mutate(trees[t], step)
            val[t] = val[t] + 10 * step
            projc[t] = proj(trees[t], coords=True)
            projn[val[t]] = proj(trees[t])
            text_of_val[val[t]] = gen(trees[t])
        elif how == "generate":
            if gen(trees[t]) != text_of_val[val[t]]:
                return "step %d: generate gives another text than this tree's value had" % step
        else:
            try:
                if how == "repr":
                    new = eval(repr(trees[t]), dict(ns))
                elif how == "deepcopy":
                    new = copy.deepcopy(trees[t])
                else:
                    new = pickle.loads(pickle.dumps(trees[t], int(how[6:])))
            except Exception as e:
                return "step %d: %s raised %s: %s" % (step, how, type(e).__name__, str(e)[:80])
            trees.append(new)
            val.append(val[t])
            projc.append(proj(new, coords=True))
            if how == "repr":
                if proj(new) != projn[val[t]]:
                    return "step %d: repr/eval copy is not structurally equal to its source" % step
            elif projc[-1] != projc[t]:
                return "step %d: %s copy differs from its source (coordinates included)" % (step, how)
            if gen(new) != text_of_val[val[t]]:
                return "step %d: %s copy generates different C text" % (step, how)
        # after every action: model values and no sharing
        for i, a in enumerate(trees):
            if proj(a) != projn[val[i]]:
                return "step %d (%s): tree %d changed although the model says only tree %d may" % (step, how, i + 1, t + 1)
        ids = [node_ids(a) for a in trees]
        for i in range(len(ids)):
            for j in range(i + 1, len(ids)):
                if ids[i] & ids[j]:
                    return "step %d (%s): trees %d and %d share node objects" % (step, how, i + 1, j + 1)
    if val != vals:
        return "harness/model disagreement on value versions %s vs %s" % (val, vals)
    return None


def _work(args):
    src, seqs = args
    bad = []
    n = 0
    for s in seqs:
        r = run_sequence(src, [tuple(x) for x in s["ops"]], s["vals"])
        if r == "skip":
            return 0, []
        n += 1
        if r:
            bad.append((src, s["ops"], r))
    return n, bad


def run(tier):
    ctx = Ctx("C15", tier, "exploration")
    rnd = random.Random(ctx.seed)
    maxops = 3 if tier == "quick" else 4
    protos = list(range(2, pickle.HIGHEST_PROTOCOL + 1))
    seqs = []
    res = tlc("AstStore", "CONSTANTS MaxOps = %d\nProtocols = {%s}\nNodesPerTree = 3\nINIT Init\nNEXT Next\nINVARIANT NoSharing\n"
              "PROPERTY Independence\nINVARIANT Export\nCHECK_DEADLOCK FALSE\n" % (maxops, ",".join(map(str, protos))),
              on_export=seqs.append)
    tlc_ok(res, "AstStore")
    seqs.sort(key=lambda q: json.dumps(q["ops"]))
    if res.violated:
        raise common.MachineryError("AstStore: %s violated" % res.violated)
    ctx.add_tlc(res, "AstStore: all action sequences len<=%d, protocols %s" % (maxops, protos))
    ctx.cov["rule"] = ("every action sequence of AstStore.tla up to %d actions (repr/eval, pickle protocols %s, deepcopy, mutate, "
                       "generate) replayed on ASTs of TLC-derived programs, the corpus and literal-heavy programs; a case is one "
                       "(program, sequence); distinct_nontrivial counts distinct programs" % (maxops, protos))
    progs = [c01.text_of(e["toks"]) for e in c01.derive(ctx, "CGram fuel<=2", 2)]
    progs = rnd.sample(progs, 400 if tier == "quick" else 6000)
    big = [txt for name, txt in corpus.preprocessed(40000)]
    jobs = []
    per = 40 if tier == "quick" else 120
    for p in progs + LITERALS * 5:
        jobs.append((p, rnd.sample(seqs, min(len(seqs), per))))
    from . import c03
    for p in c03.declaration_programs(ctx, rnd, 150 if tier == "quick" else 2000):
        jobs.append((p, rnd.sample(seqs, min(len(seqs), 10 if tier == "quick" else 40))))
    lp, nlit = literal_programs()
    first = {}
    for q in seqs:      # one sequence starting with each kind of action (repr/eval, every pickle protocol, deepcopy)
        if q["ops"]:
            first.setdefault(q["ops"][0][0], q)
    for p in lp:
        jobs.append((p, list(first.values()) + rnd.sample(seqs, min(len(seqs), 8 if tier == "quick" else 40))))
    ctx.note("literal_population", dict(literals=nlit, programs=len(lp)))
    for p in big:
        jobs.append((p, rnd.sample(seqs, min(len(seqs), 12 if tier == "quick" else 60))))
    n = 0
    for cnt, bad in pmap(_work, jobs, chunk=4):
        n += cnt
        for src, ops, r in bad:
            ctx.fail(r + " :: ops=%s" % ops, dict(kind="store", src=src, ops=ops))
    ctx.count(n, nontrivial=len(jobs), traces=n)
    ctx.note("population", dict(programs=len(jobs), sequences_in_model=len(seqs), replays=n))
    ctx.sample(dict(program=LITERALS[0], sequence=seqs[len(seqs) // 2]["ops"]))
    ctx.assumptions += ["byte-level codec fidelity is exercised by the harness; the TLA+ model decides aliasing and equality"]
    return ctx.finish()


def replay(path):
    r = json.load(open(path))["replay"]
    ops = [tuple(x) for x in r["ops"]]
    d = run_sequence(r["src"], ops, None) if False else None
    # recompute expected versions
    val = [1]
    for step, (how, t) in enumerate(ops, 1):
        if how == "mutate":
            val[t - 1] += 10 * step
        elif how != "generate":
            val.append(val[t - 1])
    d = run_sequence(r["src"], ops, val)
    if d and d != "skip":
        print("VIOLATION property=C15 replay=%s" % path)
        print("  what:", d)
        return 1
    return 0
