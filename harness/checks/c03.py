"""C03: declaration ASTs encode C declarator semantics for every declared name.

spec -> code: TLC enumerates the declarations of spec/CDecl.tla - declarator syntax trees built
from pointer(+qualifiers) / array(+static, qualifiers, *, bound) / function(prototype forms) /
parentheses, x base specifiers x qualifiers x storage and function specifiers x initializers
x bit-fields x 1-2 declarators x 7 declaration contexts (type names in 4 sub-contexts); every
finished state carries the Decl / Typedef / Typename nodes that C99 6.7.5.1-3 assign; the
declaration is parsed in its context and the projected nodes must be equal.
code -> spec: the declarations of the corpus are validated by the AST-guided matcher
(SpecRun / Dtor of spec/FrontTrace.tla) and the recorded declarator splices by the Splice rule.
"""
import json
import random

from .. import common
from ..common import Ctx, tlc, tlc_ok, pmap, mc_module, workdir, rmtree
from ..proj import proj, diff
from .. import corpus, matcher, ptrace

PRELUDE = "typedef int T; int n; "
NPRE = 2

ALL_CTX = ["file", "block", "forinit", "param", "absparam", "member", "typedef", "typename"]


def render(case, sub=None):
    """Returns list of (context label, source, extractor) for one exported declaration."""
    t = " ".join(case["toks"])
    ctx = case["ctx"]
    k = len(case["nodes"])
    if ctx in ("file", "typedef"):
        return [(ctx, PRELUDE + t + " ;", lambda a: a.ext[NPRE:NPRE + k])]
    if ctx == "block":
        return [(ctx, PRELUDE + "void f(void) { " + t + " ; }", lambda a: a.ext[NPRE].body.block_items[:k])]
    if ctx == "forinit":
        return [(ctx, PRELUDE + "void f(void) { for (" + t + " ; ; ) ; }",
                 lambda a: a.ext[NPRE].body.block_items[0].init.decls)]
    if ctx in ("param", "absparam"):
        return [(ctx, PRELUDE + "void f(" + t + ");", lambda a: a.ext[NPRE].type.args.params[:1])]
    if ctx == "member":
        return [(ctx, PRELUDE + "struct M { " + t + " ; };", lambda a: a.ext[NPRE].type.decls[:k])]
    if ctx == "typename":
        return [("cast", PRELUDE + "int v = (" + t + ") a;", lambda a: [a.ext[NPRE].init.to_type]),
                ("sizeof", PRELUDE + "int v = sizeof(" + t + ");", lambda a: [a.ext[NPRE].init.expr]),
                ("alignof", PRELUDE + "int v = _Alignof(" + t + ");", lambda a: [a.ext[NPRE].init.expr]),
                ("complit", PRELUDE + "int v = (" + t + "){0};", lambda a: [a.ext[NPRE].init.type])]
    raise ValueError(ctx)


def check_case(case, parser=None):
    from pycparser import c_parser
    out = []
    for label, src, get in render(case):
        try:
            ast = (parser or c_parser.CParser()).parse(src, "d.c")
        except Exception as e:
            import re
            msg = re.sub(r"^d\.c(:\d+:\d+)?: ", "", str(e))
            out.append((label, "declaration rejected in context %s: %s: %s" % (label, type(e).__name__, msg[:60]), src))
            continue
        try:
            got = [proj(x) for x in get(ast)]
        except Exception as e:
            out.append((label, "declaration not found where context %s puts it (%s)" % (label, type(e).__name__), src))
            continue
        want = case["nodes"]
        if len(got) != len(want):
            out.append((label, "context %s: %d declared entities, %d expected" % (label, len(got), len(want)), src))
            continue
        for i, (g, w) in enumerate(zip(got, want)):
            d = diff(w, g)
            if d:
                out.append((label, "context %s declarator %d: %s" % (label, i + 1, d[:140]), src))
                break
    return out


def _work(chunk):
    from pycparser import c_parser
    bad = []
    n = 0
    shared = c_parser.CParser()
    for i, c in enumerate(chunk):
        f = check_case(c)
        n += 4 if c["ctx"] == "typename" else 1
        for label, sig, src in f:
            bad.append((c, sig, src))
        if not f and i % 3 == 0:
            # and on a parser that has parsed other declarations before (a third of the cases)
            for label, sig, src in check_case(c, shared):
                bad.append((c, "on a reused parser: " + sig, src))
            n += 4 if c["ctx"] == "typename" else 1
    return len(chunk), n, bad


QUALSETS = '{<<>>, <<"const">>, <<"const","volatile">>}'


def enumerate_decls(ctx, label, **kw):
    wd = workdir("c03")
    try:
        defs = dict(MaxDeriv=kw.get("deriv", 3), MaxDecls=kw.get("decls", 1), Bases=set(kw.get("bases", ["int"])),
                    SpecQuals=("raw", kw.get("squals", "{<<>>}")), Storages=("raw", kw.get("stor", "{<<>>}")),
                    Ctxs=set(kw.get("ctxs", ALL_CTX)), Inits=set(kw.get("inits", ["none"])),
                    PtrQuals=("raw", kw.get("ptrquals", QUALSETS)),
                    Dims=set(kw.get("dims", ["none", "3", "static3", "const", "conststatic3", "star", "const3", "n"])),
                    Params=set(kw.get("params", ["empty", "void", "int", "int_p", "int_char", "int_p_ell"])),
                    Parens=kw.get("parens", True))
        path, sub = mc_module(wd, "CDecl", defs)
        ex = []
        res = tlc(path, sub + "INIT Init\nNEXT Next\nINVARIANT SpliceAgrees\nINVARIANT ChainLength\nINVARIANT Export\n"
                  "CHECK_DEADLOCK FALSE\n", wd=wd, on_export=ex.append, timeout=3000,
                  simulate=kw.get("simulate"), depth=kw.get("depth"), seed=kw.get("seed"),
                  workers=8 if kw.get("simulate") else None)
        tlc_ok(res, "CDecl " + label)
        if res.violated:
            raise common.MachineryError("CDecl %s: %s violated" % (label, res.violated))
        ctx.add_tlc(res, label)
        seen, uniq = set(), []
        for e in ex:
            key = (e["ctx"], " ".join(e["toks"]))
            if key not in seen:
                seen.add(key)
                uniq.append(e)
        uniq.sort(key=lambda e: (e["ctx"], " ".join(e["toks"])))
        return uniq
    finally:
        rmtree(wd)


def replay_cases(ctx, cases, label):
    chunks = [cases[i:i + 300] for i in range(0, len(cases), 300)]
    n = np = 0
    for cnt, parses, bad in pmap(_work, chunks, chunk=1):
        n += cnt
        np += parses
        for c, sig, src in bad:
            ctx.fail(sig + " :: src=" + src, dict(kind="decl", case=c))
    ctx.count(np, nontrivial=n, traces=np)
    ctx.note("population_" + label, dict(declarations=n, parses=np))


def run(tier):
    ctx = Ctx("C03", tier, "model_checking")
    rnd = random.Random(ctx.seed)
    ctx.cov["rule"] = ("declarations enumerated by TLC from spec/CDecl.tla: all declarator trees up to MaxDeriv wrappers over "
                       "{pointer x 3 qualifier sets, array x 8 bound forms, function x 6 parameter forms, parentheses} in 7 "
                       "contexts (type names in cast / sizeof / _Alignof / compound literal), then base specifiers x qualifiers "
                       "x storage/function specifiers, two-declarator declarations and initializer / bit-field forms at smaller "
                       "depth; a case is one declaration in one context")
    d1 = 3 if tier == "quick" else 4
    plans = [
        ("declarators<=%d x 7 contexts (base int)" % d1, dict(deriv=d1)),
        ("declarators<=2 x 9 bases x 3 specifier-qualifier sets",
         dict(deriv=2, bases=["int", "ulong", "longlong", "tdef", "sref", "sdef", "udef", "edef", "eref"], squals=QUALSETS,
              dims=["none", "3", "star"], params=["empty", "int_p"])),
        ("declarators<=2 x storage and function specifiers (file, block)",
         dict(deriv=2, ctxs=["file", "block"], bases=["int", "sdef"], dims=["3"], params=["void", "int_p"],
              stor='{<<"static">>, <<"extern">>, <<"typedef">>, <<"register">>, <<"static", "inline">>, <<"_Noreturn", "extern">>, '
                   '<<"_Thread_local", "static">>, <<"auto">>, <<"inline", "_Noreturn">>, <<"_Noreturn", "inline">>, '
                   '<<"inline", "static", "_Noreturn">>, <<"extern", "_Thread_local">>, <<"_Noreturn", "static", "inline">>}')),
        ("qualifier order (source order is kept)",
         dict(deriv=1, bases=["int", "tdef", "sref"],
              squals='{<<"volatile","const">>, <<"const","volatile">>, <<"volatile","const","volatile">>}',
              ptrquals='{<<>>, <<"volatile","const">>, <<"const","volatile">>}', dims=["3"], params=["int_p"])),
        ("typedef name as the only parameter of an abstract function declarator (6.7.6.3p11)",
         dict(deriv=3, ctxs=["param", "absparam", "typename"], bases=["int", "tdef"], dims=["3"], params=["T", "int"], ptrquals='{<<>>, <<"const">>}')),
        ("two declarators sharing specifiers, <=2 wrappers each",
         dict(deriv=2, decls=2, ctxs=["file", "block", "forinit", "member", "typedef"], bases=["int", "sdef", "edef", "tdef"],
              squals='{<<>>, <<"const">>}', dims=["3"], params=["int_p"], ptrquals='{<<>>, <<"const">>}', parens=False)),
        ("_Atomic(type-name) specifiers, one and two declarators",
         dict(deriv=2, decls=2, bases=["atomic_int", "atomic_T", "atomic_ptr", "atomic_fptr"], squals='{<<>>, <<"const">>}',
              dims=["3", "none"], params=["void", "int_p"], ptrquals='{<<>>, <<"const">>}')),
        ("initializers and bit-fields",
         dict(deriv=1, decls=2, ctxs=["file", "block", "forinit", "member"], bases=["int", "sref"],
              inits=["none", "scalar", "braces", "trailing", "empty", "desig", "nested", "bits"], dims=["3", "none"],
              params=["void"], ptrquals='{<<>>}', parens=False)),
    ]
    if tier == "thorough":
        plans.append(("declarators<=3 x 4 bases x qualifiers", dict(deriv=3, bases=["ulong", "tdef", "sdef", "edef"],
                                                                    squals=QUALSETS, dims=["none", "3"], params=["empty", "int_p"])))
    allc = []
    for label, kw in plans:
        cases = enumerate_decls(ctx, label, **kw)
        if tier == "quick" and len(cases) > 45000:
            cases = rnd.sample(cases, 45000)
        replay_cases(ctx, cases, label)
        allc += cases
    sim = enumerate_decls(ctx, "simulated declarators of 5-8 wrappers", deriv=8, simulate=3000 if tier == "quick" else 60000,
                          depth=14, seed=ctx.seed + 23, bases=["int", "tdef"], squals='{<<>>, <<"volatile">>}')
    replay_cases(ctx, sim, "simulated deep declarators")
    for c in rnd.sample(allc, 3):
        ctx.sample(dict(context=c["ctx"], declaration=" ".join(c["toks"]), expected=c["nodes"][-1]["type"]))
    long_units(ctx, tier, rnd, allc)
    long_lists(ctx, tier, rnd)
    monitor(ctx, tier, rnd)
    ctx.cov["exhaustive"] = True
    ctx.assumptions += ["Chain in spec/CDecl.tla is C99 6.7.5.1-3 verbatim; TypeDecl.align / Typename.align are outside the projection"]
    return ctx.finish()


def declaration_programs(ctx, rnd, n):
    """Source texts of CDecl declarations with one and two declarators over every base (the _Atomic(type-name) ones
    included), for checks that need ASTs with shared specifiers and copied declarator chains (C07, C14, C15)."""
    cases = enumerate_decls(ctx, "CDecl: two declarators, all bases (population for other checks)", deriv=2, decls=2,
                            ctxs=["file", "block", "member", "typedef"],
                            bases=["int", "sdef", "udef", "edef", "atomic_int", "atomic_T", "atomic_ptr", "atomic_fptr"],
                            squals='{<<>>}', dims=["3"], params=["int_p", "int_p_ell"], ptrquals='{<<>>, <<"const">>}', parens=False)
    cases = rnd.sample(cases, min(len(cases), n))
    return [src for c in cases for label, src, get in render(c)]


def long_units(ctx, tier, rnd, cases):
    """The same declarations far from the start of the input: units of 20-400 declarations (their contexts included)
    must give, declaration by declaration, the tree each gives alone."""
    from .. import longunit
    snippets = []
    for c in rnd.sample(cases, min(len(cases), 6000 if tier == "quick" else 60000)):
        if c["ctx"] == "typedef" or "typedef" in c["toks"]:
            continue            # a typedef of x would clash with the objects named x of the other parts
        for label, src, get in render(c):
            snippets.append(src[len(PRELUDE):])
    units = longunit.make_units(snippets, rnd, 160 if tier == "quick" else 1500)
    n = 0
    for cnt, bad in pmap(longunit.check_unit, [(PRELUDE, u) for u in units], chunk=2):
        n += cnt
        for sig, text in bad:
            ctx.fail("long unit: " + sig, dict(kind="unit", text=text))
    ctx.count(len(units), nontrivial=len(units), traces=n)
    ctx.note("long_units", dict(units=len(units), declarations=n))


def long_lists(ctx, tier, rnd):
    """The i-th parameter / member / declarator / enumerator / external declaration of a long list gets the tree
    the same item gets in a list of one (item spellings: the flat families of Families.tla, harness/checks/c16.LISTS)."""
    from .. import longunit
    from .c16 import LISTS
    kinds = ["params_proto", "members", "declarators", "enumerators", "externals"]
    jobs = longunit.list_jobs(kinds, {k: LISTS[k][2] for k in kinds}, rnd, 6 if tier == "quick" else 60)
    n = 0
    for cnt, bad in pmap(longunit.check_list, jobs, chunk=4):
        n += cnt
        for sig, text in bad:
            ctx.fail("long list: " + sig, dict(kind="unit", text=text))
    ctx.count(len(jobs), nontrivial=len(jobs), traces=n)
    ctx.note("long_lists", dict(lists=len(jobs), items=n))


def monitor(ctx, tier, rnd):
    """code -> spec: declarations of the corpus through the matcher; recorded splices."""
    cases, names = [], []
    nsplice = 0
    for name, txt in corpus.preprocessed(None):
        if not (matcher.in_domain(txt) and ptrace.ascii_ok(txt)):
            continue
        with ptrace.Recorder() as rec:
            tk, ast, exc = matcher.parse_with_tokens(txt, name)
        if ast is None:
            continue
        cases.append(matcher.case_of(tk, ast))
        names.append(name)
    acc, _, res = matcher.validate(cases, "corpus declarations")
    ctx.add_tlc(res, "FrontTrace (SpecRun/Dtor) on the corpus")
    for i, c in enumerate(cases, 1):
        if i not in acc:
            ctx.fail("corpus file %s: tokens are not a yield of its AST: %s" % (names[i - 1], matcher.explain(c)),
                     dict(kind="corpus", name=names[i - 1]))
    ctx.count(len(cases), traces=len(cases))
    # splice events: output chain = decl chain with the modifier chain spliced in before the TypeDecl
    from pycparser import c_parser
    ev = []
    with ptrace.Recorder() as rec:
        for name, txt in corpus.preprocessed(40000):
            try:
                c_parser.CParser().parse(txt, name)
            except Exception:
                pass
    bad = 0
    for e in rec.events:
        if e["e"] == "splice":
            nsplice += 1
            decl, mod, out = e["decl"], e["mod"], e["out"]
            want = decl[:-1] + mod + decl[-1:] if decl[-1] == "TypeDecl" else None
            # modifier chains end in None -> _shape stops at the last modifier
            if want is None or out != want:
                bad += 1
                if bad <= 3:
                    ctx.fail("splice: decl chain %s + modifier %s gave %s, Chain appends before the TypeDecl: %s" % (decl, mod, out, want),
                             dict(kind="splice"))
    ctx.count(nsplice, traces=nsplice)
    ctx.note("splice_events_validated", nsplice)


def replay(path):
    r = json.load(open(path))["replay"]
    if r.get("kind") == "decl":
        f = check_case(r["case"])
        for label, sig, src in f:
            print("VIOLATION property=C03 replay=%s" % path)
            print("  what:", sig, "::", src)
        return 1 if f else 0
    return 0
