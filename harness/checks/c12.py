"""C12: a parser's result depends only on (text, filename), never on its history.

Spec: spec/Session.tla - ParseBegin re-establishes FrontInit in every component; TLC checks
HistoryIndependence on the model and shows (MC_SessionNoReset) that dropping the reset of any
component breaks it.  spec -> code: TLC enumerates every call history up to MaxCalls over a
palette of programs chosen to dirty each component; each history is replayed on ONE CParser
instance and every call is compared with the same call on a fresh instance (AST with
coordinates, or exception type and message); ASTs of different calls must share no node.
code -> spec: the hook trace of every call of a sample of histories is validated against
spec/ParserTrace.tla (Begin = FreshStart, lookups answered from a fresh scope table, ...).
The same is done for a reused CLexer (input() again) and a reused CGenerator.
"""
import json
import random

from .. import common
from ..common import Ctx, tlc, tlc_ok, pmap, mc_module, workdir, rmtree, tla_val
from ..proj import proj
from .. import ptrace, gentrace

# kind -> (text, filename, leaves, sensitive)
PALETTE = {
    "typedefs_ok": ("typedef int T; typedef char U; T x; U y;", "a.c", {"typedefs", "buffer"}, {"typedefs"}),
    "fail_open_scopes": ("void f(void) { { int q; @", "b.c", {"scopes", "buffer"}, {"scopes"}),
    "fail_after_typedef": ("typedef int T; T @ y;", "c.c", {"typedefs", "buffer"}, {"typedefs"}),
    "obj_named_T": ("int T; int y = T * 2;", "d.c", {"typedefs", "buffer"}, {"typedefs"}),
    "pending_pragma": ("int x = \n#pragma foo bar\n 3;", "e.c", {"pending", "line", "buffer"}, {"pending"}),
    "line_directive": ("# 100 \"other.h\"\nint z;\n", "f.c", {"file", "line", "buffer"}, {"file", "line"}),
    "lexer_error": ("int x = 'ab\n;", "g.c", {"buffer", "line"}, {"line"}),
    "T_times_p": ("int p; void g(void) { T * p; }", "h.c", {"scopes", "typedefs", "buffer"}, {"typedefs", "scopes"}),
    "typedef_clash": ("typedef int T; int T;", "i.c", {"typedefs", "buffer"}, {"typedefs"}),
    "empty": ("", "j.c", set(), set()),
    "fail_at_eof": ("int x", "k.c", {"buffer"}, {"buffer"}),
    "deep_fail": ("typedef int V; void f(V a) { if (1) { while (2) { V * b; (", "l.c", {"scopes", "typedefs", "buffer"}, {"scopes", "typedefs"}),
    "error_line_col": ("\n\n   int x = ;", "m.c", {"line", "buffer"}, {"line", "file"}),
    "sizeof_T": ("int s = sizeof(T); int u = sizeof(U);", "n.c", {"typedefs", "buffer"}, {"typedefs"}),
    "starts_with_T": ("T first; int after;", "o.c", {"typedefs", "buffer"}, {"typedefs"}),
    "starts_with_rbrace": ("} int x;", "p.c", {"buffer"}, {"scopes"}),
    "starts_with_V_use": ("V * w;", "q.c", {"buffer"}, {"typedefs", "scopes"}),
    # token-aligned pairs around the speculative '(' type-name ')' sites: one fails right after the speculation,
    # the other has an ordinary '(' at the same token index
    "fail_preinc_cast": ("int a = ++(int)b;", "r.c", {"buffer"}, {"buffer"}),
    "paren_expr_same_index": ("int a = -(b + c) * 2;", "s.c", {"buffer"}, {"buffer"}),
    "fail_sizeof_type_junk": ("int a = sizeof(int) b;", "t.c", {"buffer"}, {"buffer"}),
    "sizeof_paren_expr": ("int a = sizeof(b) + 2;", "u.c", {"buffer"}, {"buffer"}),
    "fail_complit_open": ("int a = (int){1;", "v.c", {"buffer", "scopes"}, {"buffer", "scopes"}),
    "paren_expr_first": ("int a = (b) + 1;", "w.c", {"buffer"}, {"buffer"}),
    "fail_in_body_after_T_lookup": ("typedef int T; void f(void) { T * a; a = ; }", "ab.c", {"scopes", "typedefs", "buffer"}, {"scopes"}),
    "T_object_same_shape": ("int T; void g(void) { T * a; }", "ac.c", {"typedefs", "buffer"}, {"typedefs", "scopes"}),
    # failures inside a block that has declared a name; later programs use that name as the other kind in their first block
    "fail_in_block_local_typedef": ("void f(void) { typedef int LT; LT x; @", "x.c", {"scopes", "typedefs", "buffer"}, {"scopes"}),
    "LT_is_an_object": ("int LT; void g(void) { LT * 2; }", "y.c", {"typedefs", "buffer"}, {"typedefs", "scopes"}),
    "fail_in_block_local_object": ("typedef int GT; void f(int GT) { GT = 1; { int V; (", "z.c", {"scopes", "typedefs", "buffer"}, {"scopes"}),
    "GT_V_are_types": ("typedef int GT; typedef int V; void g(void) { GT * p; { V * q; } }", "aa.c", {"typedefs", "buffer"}, {"typedefs", "scopes"}),
}
COMPONENTS = {"scopes", "typedefs", "pending", "file", "line", "buffer"}


def solo(kind):
    from pycparser import c_parser
    text, fn = PALETTE[kind][0], PALETTE[kind][1]
    try:
        ast = c_parser.CParser().parse(text, fn)
        return ("ast", proj(ast, coords=True)), ast
    except Exception as e:
        return ("exc", type(e).__name__, str(e)), None


def node_ids(ast):
    ids = set()
    stack = [ast]
    while stack:
        n = stack.pop()
        if id(n) in ids:
            continue
        ids.add(id(n))
        for _, c in n.children():
            stack.append(c)
    return ids


def replay_history(hist, solos):
    from pycparser import c_parser
    p = c_parser.CParser()
    seen_ids = set()
    keep = []
    for n, kind in enumerate(hist):
        text, fn = PALETTE[kind][0], PALETTE[kind][1]
        try:
            ast = p.parse(text, fn)
            got = ("ast", proj(ast, coords=True))
        except Exception as e:
            ast = None
            got = ("exc", type(e).__name__, str(e))
        if got != solos[kind]:
            exp = solos[kind]
            return "call %d (%s) after %s differs from a fresh instance: fresh=%s reused=%s" % (
                n + 1, kind, hist[:n], _short(exp), _short(got))
        if ast is not None:
            ids = node_ids(ast)
            if ids & seen_ids:
                return "call %d (%s) after %s returns an AST sharing nodes with an earlier result" % (n + 1, kind, hist[:n])
            seen_ids |= ids
            keep.append(ast)
    return None


def _short(r):
    if r[0] == "exc":
        return "%s(%s)" % (r[1], r[2][:60])
    return "AST(%d top-level nodes)" % len(r[1].get("ext", []))


def _work(chunk):
    solos = {k: solo(k)[0] for k in PALETTE}
    bad = []
    n = 0
    for h in chunk:
        n += len(h)
        d = replay_history(h, solos)
        if d:
            bad.append((h, d))
    return len(chunk), n, bad


def session_cfg(wd, kinds, maxcalls, resetmask):
    leaves = " @@ ".join("(%s :> %s)" % (tla_val(k), tla_val(set(PALETTE[k][2]))) for k in kinds)
    sens = " @@ ".join("(%s :> %s)" % (tla_val(k), tla_val(set(PALETTE[k][3]))) for k in kinds)
    path, sub = mc_module(wd, "Session", dict(
        Kinds=set(kinds), Leaves=("raw", leaves), Sensitive=("raw", sens), MaxCalls=maxcalls,
        ResetMask=set(resetmask), Inst=("raw", "{}"), Steps=("raw", "<<>>")))
    return path, sub


def run(tier):
    ctx = Ctx("C12", tier, "model_checking")
    rnd = random.Random(ctx.seed)
    ctx.cov["rule"] = ("every sequence of parse calls up to MaxCalls over a palette of %d programs (valid with typedefs, "
                       "failing inside open scopes, after typedefs, in the lexer callback, with a pending pragma token, after "
                       "#line, clashing names, empty); a case is one history replayed on one instance and compared call by "
                       "call with fresh instances" % len(PALETTE))
    kinds = sorted(PALETTE)
    maxcalls = 3 if tier == "quick" else 4
    wd = workdir("c12")
    try:
        # the design: full reset
        path, sub = session_cfg(wd, kinds, maxcalls, COMPONENTS)
        hists = []
        res = tlc(path, sub + "INIT Init\nNEXT Next\nINVARIANT HistoryIndependence\nINVARIANT ExportHist\nCHECK_DEADLOCK FALSE\n",
                  wd=wd, on_export=lambda v: hists.append(v["hist"]), timeout=3000)
        tlc_ok(res, "Session")
        if res.violated:
            raise common.MachineryError("Session: %s violated on the design" % res.violated)
        ctx.add_tlc(res, "Session histories len<=%d over %d kinds (HistoryIndependence)" % (maxcalls, len(kinds)))
        # vacuity guard: dropping the reset of any component must break the invariant in the model
        for comp in sorted(COMPONENTS):
            path2, sub2 = session_cfg(wd, kinds, 2, COMPONENTS - {comp})
            r2 = tlc(path2, sub2 + "INIT Init\nNEXT Next\nINVARIANT HistoryIndependence\nCHECK_DEADLOCK FALSE\n", wd=wd)
            if comp == "buffer":
                continue     # a stale buffer is observable only through 'buffer'-sensitive programs
            if r2.violated != "HistoryIndependence":
                raise common.MachineryError("vacuity: the model does not need the reset of %s" % comp)
        ctx.note("model_needs_reset_of", sorted(COMPONENTS - {"buffer"}))
    finally:
        rmtree(wd)
    chunks = [hists[i:i + 100] for i in range(0, len(hists), 100)]
    nh = nc = 0
    for cnt, calls, bad in pmap(_work, chunks, chunk=1):
        nh += cnt
        nc += calls
        for h, d in bad:
            ctx.fail(d, dict(kind="history", hist=h))
    ctx.count(nc, nontrivial=nh, traces=nh)
    ctx.note("population_histories", dict(histories=nh, calls=nc))
    ctx.sample(dict(history=hists[len(hists) // 2], texts=[PALETTE[k][0] for k in hists[len(hists) // 2]]))
    # code -> spec: traces of every call of sampled histories
    from pycparser import c_parser
    sample = rnd.sample(hists, 120 if tier == "quick" else 1500)
    traces = []
    for h in sample:
        p = c_parser.CParser()
        with ptrace.Recorder() as rec:
            for kind in h:
                try:
                    p.parse(PALETTE[kind][0], PALETTE[kind][1])
                except Exception:
                    pass
        parts = [t for t in ptrace.assemble(rec.events) if t["parser"] == id(p)]
        for kind, t in zip(h, parts):
            traces.append(dict(text=PALETTE[kind][0], file=PALETTE[kind][1], ev=t["ev"]))
    acc, res = ptrace.validate(traces, "histories", R=64)
    ctx.add_tlc(res, "ParserTrace on every call of sampled histories (FreshStart)")
    nrej = 0
    for i, tr in enumerate(traces, 1):
        if i not in acc:
            nrej += 1
            why = ptrace.explain(tr, R=64) if nrej <= 3 else "(not diagnosed)"
            ctx.fail("call trace rejected by ParserTrace (state not fresh?): %s" % why, dict(kind="trace", text=tr["text"]))
    ctx.count(len(traces), traces=len(traces))
    # reused CLexer and CGenerator
    reuse_lexer_generator(ctx, rnd, tier)
    ctx.cov["exhaustive"] = True
    ctx.assumptions += ["results are compared through harness/proj.py with coordinates; exceptions by type and message"]
    return ctx.finish()


# programs for generator reuse: every construct that indents its body, declarations in every statement position,
# each with something that indents at file scope after the last function
GEN_PROGRAMS = [
    "struct S { int a; struct { int b; } c; }; void f(void) { if (1) { while (2) { x; } } }",
    "void f(int a) { switch (a) { case 1: a++; int y = a * 2; y++; default: ; typedef int Q; Q q; } }",
    "void f(int a) { switch (a) { case 1: { int z; } case 2: for (int i = 0;;) a++; case 3: case 4: break; } } struct T { int m; } t;",
    "void f(int a) { for (;;) switch (a) case 1: while (a) do a--; while (a); L: a++; if (a) ; else if (a) a--; else { } }",
    "struct S { int a; struct { int b; union { int c; }; } d; enum { X, Y } e; }; enum E { P, Q = 2 }; union U { int u; };",
    "void f(void) { int a[2] = { 1, 2 }; struct P { int x; } p = { .x = 1 }; { { } } do { } while (0); }\n#pragma p\nint g;",
    "int v = sizeof(struct { int m; }); void f(void) { L: M: ; goto L; return; } typedef struct { int q; } W;",
    "void f(int a) { if (a) for (;;) { } else while (a) ; switch (a) { default: { int k; } } }\nint after[3];",
]


def reuse_lexer_generator(ctx, rnd, tier):
    from pycparser import c_lexer, c_parser, c_generator
    texts = [PALETTE[k][0] for k in sorted(PALETTE)]

    def lex_all(lx, text, fn):
        errs = []
        lx.error_func = lambda m, l, c: errs.append((m, l, c))
        lx.input(text, fn)
        out = []
        for _ in range(len(text) + 3):
            t = lx.token()
            if t is None:
                break
            out.append((t.type, t.value, t.lineno, t.column))
        return out, errs, lx.filename

    n = 0
    for _ in range(300 if tier == "quick" else 5000):
        seq = [rnd.choice(texts) for _ in range(rnd.randint(2, 4))]
        lx = c_lexer.CLexer(lambda *a: None, lambda: None, lambda: None, lambda nm: nm == "T")
        for i, t in enumerate(seq):
            got = lex_all(lx, t, "r%d.c" % i)
            fresh = lex_all(c_lexer.CLexer(lambda *a: None, lambda: None, lambda: None, lambda nm: nm == "T"), t, "r%d.c" % i)
            n += 1
            if got != fresh:
                ctx.fail("reused CLexer differs from a fresh one on call %d of %r" % (i + 1, seq), dict(kind="lexer", seq=seq))
                break
    asts = []
    for k in sorted(PALETTE):
        try:
            asts.append(c_parser.CParser().parse(PALETTE[k][0], "x.c"))
        except Exception:
            pass
    for src in GEN_PROGRAMS:
        asts.append(c_parser.CParser().parse(src, "x.c"))
    # any node is a legitimate argument of visit(): whole units, definitions, statements, expressions, types
    pool = []
    for a in asts:
        st = [a]
        while st:
            x = st.pop()
            pool.append(x)
            st.extend(c for _, c in x.children())
    pool = [x for x in pool if type(x).__name__ not in ("EllipsisParam",)]
    traces, seqs = [], []
    for _ in range(300 if tier == "quick" else 4000):
        rp = rnd.random() < 0.3
        seq = [rnd.choice(asts) if rnd.random() < 0.4 else rnd.choice(pool) for _ in range(rnd.randint(2, 5))]
        g = c_generator.CGenerator(reduce_parentheses=rp)
        tr, outs = gentrace.record(g, seq)
        traces.append(tr)
        seqs.append([type(x).__name__ for x in seq])
        for i, (a, got) in enumerate(zip(seq, outs)):
            n += 1
            try:
                want = c_generator.CGenerator(reduce_parentheses=rp).visit(a)
            except Exception as x:
                want = x
            if isinstance(want, Exception) or isinstance(got, Exception):
                if type(want) is not type(got):
                    ctx.fail("reused CGenerator: visit %d of %s gives %r, a fresh one %r" % (i + 1, seqs[-1], got, want),
                             dict(kind="generator"))
                break      # the property speaks about reuse after successful visits
            if got != want:
                ctx.fail("reused CGenerator differs from a fresh one on visit %d of %s" % (i + 1, seqs[-1]), dict(kind="generator"))
                break
            if g.indent_level != 0:
                ctx.fail("CGenerator.indent_level is %d after a successful top-level visit" % g.indent_level, dict(kind="generator"))
                break
    acc, deep, res = gentrace.validate(traces, "C12 generator reuse")
    ctx.add_tlc(res, "GenTrace on reused generators (BlockRestores, VisitRestores, ReuseFresh)")
    for i, tr in enumerate(traces, 1):
        if i not in acc:
            ctx.fail("generator events of visits %s: %s" % (seqs[i - 1], gentrace.explain(tr, deep.get(i))), dict(kind="generator"))
    ctx.count(n, traces=n)
    ctx.note("reused_lexer_and_generator_calls", n)


def replay(path):
    r = json.load(open(path))["replay"]
    if r.get("kind") == "history":
        solos = {k: solo(k)[0] for k in PALETTE}
        d = replay_history(r["hist"], solos)
        if d:
            print("VIOLATION property=C12 replay=%s" % path)
            print("  what:", d)
            return 1
    return 0
