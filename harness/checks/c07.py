"""C07: generated C re-parses to the same AST (parse . generate . parse = parse).

Population: the programs TLC derives from spec/CGram.tla (C01), spec/CExpr.tla in statement
context (C02) and the preprocessed corpus, x both generator configurations.  Oracles:
 (1) the tokens of the generated text must be accepted by the AST-guided matcher
     (spec/FrontTrace.tla) against the *first* AST - an oracle that does not go through the
     parser's grouping, so a fault mirrored in parser and generator is seen;
 (2) re-parsing the generated text gives a structurally equal AST (coordinates aside);
 (3) generating from the second AST reproduces the text character for character.
"""
import json
import random
import re

from .. import common
from ..common import Ctx, pmap
from ..proj import proj, diff
from .. import corpus, matcher
from . import c01, c02


def roundtrip(src, reduce_parentheses, want_case=False):
    """Returns (failure signature or None, matcher case or None)."""
    from pycparser import c_parser, c_generator
    try:
        ast1 = c_parser.CParser().parse(src, "r.c")
    except Exception:
        return "skip", None          # outside the property's domain ("every source text that parses")
    try:
        g1 = c_generator.CGenerator(reduce_parentheses=reduce_parentheses).visit(ast1)
    except Exception as e:
        return "generator raised %s: %s" % (type(e).__name__, str(e)[:80]), None
    toks2, ast2, exc = matcher.parse_with_tokens(g1, "r.c") if want_case else (None, None, None)
    if not want_case:
        try:
            ast2 = c_parser.CParser().parse(g1, "r.c")
        except Exception as e:
            exc = e
    if ast2 is None:
        msg = re.sub(r"^r\.c(:\d+:\d+)?: ", "", str(exc))
        return "generated text rejected: %s: %s" % (type(exc).__name__, msg[:60]), None
    d = diff(proj(ast1), proj(ast2))
    if d:
        d = re.sub(r"\[\d+\]", "[i]", d)
        path, _, rest = d.partition(": ")
        if len(path) > 70:          # a deep path: keep its end (the findings file is keyed on the last segments)
            path = ".." + path[-70:]
        return "reparsed tree differs: %s: %s" % (path, rest[:80]), None
    g2 = c_generator.CGenerator(reduce_parentheses=reduce_parentheses).visit(ast2)
    if g2 != g1:
        return "second generation differs from the first", None
    case = matcher.case_of(toks2, ast1) if want_case and matcher.in_domain(src) and matcher.in_domain(g1) else None
    return None, case


def _work(args):
    chunk, want = args
    out = []
    cases = []
    n = skipped = 0
    for src, feat, take in chunk:
        for rp in (False, True):
            sig, case = roundtrip(src, rp, want_case=want and take)
            if sig == "skip":
                skipped += 1
                break
            n += 1
            if sig:
                out.append((src, rp, "%s rp=%s feat=%s" % (sig, rp, feat)))
            elif case is not None:
                cases.append((src, rp, case))
    return n, skipped, out, cases


def run_population(ctx, items, label, rnd, nmatch):
    """items: list of (src, feat-string)."""
    take = set(rnd.sample(range(len(items)), min(len(items), nmatch)))
    chunks = [([(s, f, i in take) for i, (s, f) in enumerate(items[a:a + 200], a)], True)
              for a in range(0, len(items), 200)]
    n = sk = 0
    cases = []
    for cnt, skipped, bad, cs in pmap(_work, chunks, chunk=1):
        n += cnt
        sk += skipped
        cases += cs
        for src, rp, sig in bad:
            ctx.fail(sig, dict(kind="roundtrip", src=src, rp=rp))
    # oracle (1): matcher on the generated tokens against the first AST
    if cases:
        acc, _, res = matcher.validate([c for _, _, c in cases], label)
        ctx.add_tlc(res, "FrontTrace " + label)
        nrej = 0
        for i, (src, rp, c) in enumerate(cases, 1):
            if i not in acc:
                nrej += 1
                why = matcher.explain(c) if nrej <= 5 else "(not diagnosed)"
                ctx.fail("generated tokens are not a yield of the AST rp=%s: %s" % (rp, why),
                         dict(kind="roundtrip", src=src, rp=rp))
    ctx.count(n, nontrivial=len(items) - sk, traces=n + len(cases))
    ctx.note("population_" + label, dict(programs=len(items), not_parsed_skipped=sk, roundtrips=n,
                                         matched_against_first_ast=len(cases)))


def _accepted_mutants(args):
    toks, seed = args
    from pycparser import c_parser
    from . import c06
    out = []
    mrnd = random.Random(seed)
    for src in c06.token_mutants(toks, ["typedef", "static", "int", "T", "x", "*", "(", ")", "[", "]", ",", ";", "=", "1", "{", "}", "struct",
                                        "const", "_Atomic", "extern", "inline", ":", "..."], mrnd, 24):
        if "#" in src:
            continue
        try:
            c_parser.CParser().parse(src, "m.c")
            out.append(src)
        except Exception:
            pass
    return out


def generator_traces(ctx, rnd, items):
    """code -> spec: the generator's indentation events while it produces the round-tripped text are a behaviour
    of spec/GenTrace.tla (every block restores its level, every visit ends where it began)."""
    from pycparser import c_parser, c_generator
    from .. import gentrace
    traces, names = [], []
    for src, feat in items:
        try:
            ast = c_parser.CParser().parse(src, "g.c")
        except Exception:
            continue
        g = c_generator.CGenerator(reduce_parentheses=rnd.random() < 0.5)
        # the unit, then each external declaration on its own: one generator, several visits
        tr, outs = gentrace.record(g, [ast] + ast.ext[:3])
        if any(isinstance(o, Exception) for o in outs):
            continue    # a generator exception is reported by the round trip itself
        traces.append(tr)
        names.append(feat if feat.startswith("corpus:") else src[:100])
    acc, deep, res = gentrace.validate(traces, "C07")
    ctx.add_tlc(res, "GenTrace on generator runs (BlockRestores, VisitRestores)")
    for i, tr in enumerate(traces, 1):
        if i not in acc:
            ctx.fail("generator events of %r: %s" % (names[i - 1], gentrace.explain(tr, deep.get(i))),
                     dict(src=names[i - 1], rp=False))
    ctx.count(len(traces), traces=len(traces))
    ctx.note("generator_traces", dict(traces=len(traces), events=sum(len(t["ev"]) for t in traces)))


def run(tier):
    ctx = Ctx("C07", tier, "model_checking")
    rnd = random.Random(ctx.seed)
    ctx.cov["rule"] = ("programs derived by TLC from CGram.tla / CExpr.tla plus the preprocessed corpus, x "
                       "reduce_parentheses in {False, True}; a case is one (program, configuration) round trip; programs "
                       "the parser rejects are outside the property and are skipped (counted)")
    progs = c01.derive(ctx, "CGram fuel<=2", 2)
    items = [(c01.text_of(e["toks"]), ",".join(e["feat"])) for e in progs]
    if tier == "thorough":
        p3 = c01.derive(ctx, "CGram fuel<=3", 3)
        items += [(c01.text_of(e["toks"]), ",".join(e["feat"])) for e in rnd.sample(p3, min(len(p3), 300000))]
    sim = c01.derive(ctx, "CGram simulated", 12, simulate=1000 if tier == "quick" else 20000, depth=400, seed=ctx.seed + 7)
    items += [(c01.text_of(e["toks"]), ",".join(e["feat"])) for e in sim]
    run_population(ctx, items, "grammar machine", rnd, 1500 if tier == "quick" else 20000)
    # expressions
    from ..common import tlc, tlc_ok
    ex = []
    res = tlc("CExpr", c02.cfg_text(2 if tier == "quick" else 3, ["min"], True, inv=False), on_export=ex.append)
    tlc_ok(res, "CExpr")
    ctx.add_tlc(res, "CExpr ops<=%d" % (2 if tier == "quick" else 3))
    ex.sort(key=lambda e: " ".join(e["toks"]))
    if len(ex) > 150000:
        ex = rnd.sample(ex, 150000)
    eitems = [("void f(void){ %s; }" % " ".join(e["toks"]), "expr") for e in ex]
    run_population(ctx, eitems, "expressions", rnd, 1000 if tier == "quick" else 10000)
    # declarations of spec/CDecl.tla (all declarator trees of <=3 derivations, named and abstract, qualified pointers,
    # array / function suffixes) in their 10 contexts: the generator has to put back exactly the parentheses 6.7.5 needs
    from . import c03
    dcases = c03.enumerate_decls(ctx, "CDecl declarators<=3 x 7 contexts", deriv=3)
    dcases += c03.enumerate_decls(ctx, "CDecl declarators<=2 x bases x qualifiers", deriv=2,
                                  bases=["int", "tdef", "sref", "sdef", "edef"], squals=c03.QUALSETS, dims=["none", "3", "star"],
                                  params=["empty", "int_p"])
    dcases = rnd.sample(dcases, min(len(dcases), 5000 if tier == "quick" else 60000))
    ditems = [(src, "cdecl:" + label) for c in dcases for label, src, get in c03.render(c)]
    ditems += [(src, "cdecl2") for src in c03.declaration_programs(ctx, rnd, 1500 if tier == "quick" else 20000)]
    run_population(ctx, ditems, "declarations", rnd, 500 if tier == "quick" else 5000)
    # texts the parser accepts although no grammar machine derives them: token-level mutants of derived programs that
    # still parse (the property quantifies over every source text that parses, valid C or not)
    from . import c06
    mjobs = [(e["toks"], rnd.randrange(1 << 30)) for e in rnd.sample(progs, min(len(progs), 1500 if tier == "quick" else 20000))]
    mitems = []
    for lst in pmap(_accepted_mutants, mjobs, chunk=16):
        # (the label names what an open finding is keyed on)
        mitems += [(src, "mutant:atomic" if "_Atomic (" in src else "mutant") for src in lst]
    seen = set()
    mitems = [x for x in mitems if not (x[0] in seen or seen.add(x[0]))]
    run_population(ctx, mitems, "accepted token mutants", rnd, 0)
    # units of several programs with every token at one and the same (line, column), the file name alternating:
    # nothing the generator does may hang on source positions
    from .. import layout
    uitems = []
    pool = [e["toks"] for e in progs if not any("\n" in t for t in e["toks"])]
    for _ in range(150 if tier == "quick" else 2000):
        toks = [t for p in (rnd.choice(pool) for _ in range(rnd.randint(2, 12))) for t in p]
        uitems.append((layout.render(toks, "sameline", rnd), "sameline-unit"))
    run_population(ctx, uitems, "units with all tokens at one position", rnd, 0)
    citems = [(txt, "corpus:" + name) for name, txt in corpus.preprocessed(None)]
    run_population(ctx, citems, "corpus", rnd, len(citems))
    from .c12 import GEN_PROGRAMS
    generator_traces(ctx, rnd, rnd.sample(items, 400 if tier == "quick" else 5000) + citems + [(g, "indent") for g in GEN_PROGRAMS])
    ctx.sample(dict(source=items[len(items) // 3][0]))
    ctx.assumptions += ["the matcher is applied to programs inside its domain (no _Atomic(type-name) with declarator)"]
    return ctx.finish()


def replay(path):
    r = json.load(open(path))["replay"]
    sig, case = roundtrip(r["src"], r["rp"], want_case=True)
    bad = sig not in (None, "skip")
    if not bad and case is not None:
        acc, _, _ = matcher.validate([case], "replay", workers=1)
        if 1 not in acc:
            bad, sig = True, matcher.explain(case)
    if bad:
        print("VIOLATION property=C07 replay=%s" % path)
        print("  what:", sig)
    return 1 if bad else 0
