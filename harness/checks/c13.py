"""C13: separate parser / generator instances never influence each other.

Spec: spec/Session.tla - steps of different instances interleave at token granularity,
fe[i] changes only in steps of i (NonInterference), no action changes `globals` (Frame).
spec -> code: TLC enumerates EVERY schedule of 2-4 parses of short programs with clashing
typedef / object names, different file names and #line directives; each schedule is replayed
with a scheduling lexer injected through the public lexer= parameter (every parse in its own
thread, parked in token() until the schedule releases it) and each result must equal the solo
result.  code -> spec: the events of all instances are recorded in one stream; each instance's
projection must be a behaviour of spec/ParserTrace.tla on its own (NonInterference at event
level), and a digest of every mutable module-level / class-level object of the four modules is
taken at every step and must never change (Frame).  Free-running threads with a minimal switch
interval and interleaved CGenerator visits complete the picture.
"""
import hashlib
import json
import re
import random
import sys
import threading

from .. import common
from ..common import Ctx, tlc, tlc_ok, mc_module, workdir, rmtree, tla_val
from ..proj import proj
from .. import ptrace

PROGS = [
    "typedef int T; T x;\n# 5 \"a.h\"\nT y;",
    "int T; int z = T * 2;",
    "typedef char U; void f(U T) { T * 3; }",
    "# 40 \"b.h\"\nstruct T { int T; } T; int w = sizeof(T);",
    "# 1 \"x.c\"\nint a;\n# 7 \"x.h\"\nint a2;",
    "# 9 \"y.c\"\nint b;\n# 3 \"y.h\"\nint b2;",
    # C89 implicit int: the parser supplies the type node itself
    "# 3 \"m.c\"\nm() { } m2(x) { }",
    "\n\n   k() { } static k2(const n) { }",
]
MEDIUM = [
    "int a = (int[]){1, 2}[0]; int z;",
    "\n\n  int bb = 1 + (char)2 + sizeof(int);",
    "typedef int T; void f(void) { T * p; int q = sizeof (T[2]){0}; }",
    "# 5 \"m3.c\"\nint T = 3; int w = (T) * 2; k() { return (T)(1); }",
    "struct S { int m : 2; } s = { .m = (short)1 }; enum { E = sizeof(struct S) };",
    "typedef char T; int f(int T, int n) { T * n; return n; }",
    "typedef int T; void g(void) { T * x; { T * y; } }",
]
LONG = [
    "# 11 \"l1.c\"\ntypedef int T; typedef T *PT; struct S { T a; PT b; }; T f(T x) { { T T; T * x; } return (T)x; }\n# 9 \"l1.h\"\nT g; q1() { return 1; }",
    "# 22 \"l2.c\"\nint T, PT; int h(int S) { T * PT; S = T + PT; return sizeof T; }\n#pragma p q\nint k = T; static q2(const n) { return n; }",
    "# 33 \"l3.c\"\nenum { T, U }; int m[] = { T, U, [2] = T * U };\n# 77 \"l3.h\"\nint n = T ? U : T; int q3(a, b) int a; { return a; } q4() { return 4; }",
]


def digest():
    """Digest of the mutable module-level and class-level objects of the four modules."""
    from pycparser import c_lexer, c_parser, c_ast, c_generator, ast_transforms
    h = hashlib.sha1()
    for mod in (c_lexer, c_parser, c_ast, c_generator, ast_transforms):
        for name in sorted(vars(mod)):
            v = vars(mod)[name]
            if isinstance(v, (dict, list, set, tuple, frozenset, str, int)) and not name.startswith("__"):
                h.update(name.encode())
                h.update(repr(sorted(v.items(), key=repr) if isinstance(v, dict) else
                              sorted(v, key=repr) if isinstance(v, (set, frozenset)) else v).encode())
            if isinstance(v, type):
                for an in sorted(vars(v)):
                    av = vars(v)[an]
                    if isinstance(av, (dict, list, set, tuple)) and not an.startswith("__"):
                        h.update((name + "." + an).encode())
                        h.update(repr(av).encode())
    h.update(repr(c_generator.CGenerator._generate_type.__defaults__).encode())
    h.update(repr(c_ast.NodeVisitor._method_cache).encode())
    return h.hexdigest()


def make_sched_lexer():
    from pycparser import c_lexer

    class SLexer(c_lexer.CLexer):
        def token(self):
            me = threading.current_thread()
            g = getattr(me, "gate", None)
            if g is not None:
                me.back.release()       # parked
                g.acquire()             # wait for the turn
            return super().token()

    return SLexer


def run_schedule(progs, schedule, frame=None):
    """Returns list of results (('ast', proj) | ('exc', type, msg)) under the given schedule."""
    from pycparser import c_parser
    SLexer = make_sched_lexer()
    results = [None] * len(progs)
    back = threading.Semaphore(0)
    threads = []

    def worker(i):
        p = c_parser.CParser(lexer=SLexer)
        try:
            results[i] = ("ast", proj(p.parse(progs[i], "f%d.c" % i), coords=True))
        except Exception as e:  # noqa
            results[i] = ("exc", type(e).__name__, str(e))
        threading.current_thread().done = True
        back.release()

    for i in range(len(progs)):
        t = threading.Thread(target=worker, args=(i,))
        t.gate = threading.Semaphore(0)
        t.back = back
        t.done = False
        threads.append(t)
    for t in threads:
        t.start()
        back.acquire()
    d0 = digest() if frame is not None else None
    import gc
    collected = set()
    for i in schedule:
        t = threads[i]
        if t.done:
            if i not in collected:          # the finished parser and its tokens are freed: addresses get reused
                collected.add(i)
                t.join()
                gc.collect()
            continue
        t.gate.release()
        back.acquire()
        if frame is not None and digest() != d0:
            frame.append(i)
    for t in threads:
        while not t.done:
            t.gate.release()
            back.acquire()
        t.join()
    return results


def steps_of(text):
    from ..lexrun import lex_trace
    return len(lex_trace(text, "x.c")["calls"])


def schedules(ctx, steps, label):
    wd = workdir("c13")
    try:
        inst = list(range(len(steps)))
        fn = " @@ ".join("(%d :> %d)" % (i, s) for i, s in enumerate(steps))
        path, sub = mc_module(wd, "Session", dict(
            Kinds=("raw", "{}"), Leaves=("raw", "<<>>"), Sensitive=("raw", "<<>>"), MaxCalls=0,
            ResetMask=("raw", "{}"), Inst=set(inst), Steps=("raw", fn)))
        out = []
        res = tlc(path, sub + "INIT Init\nNEXT Next\nINVARIANT NonInterference\nPROPERTY Frame\nINVARIANT ExportSched\n"
                  "CHECK_DEADLOCK FALSE\n", wd=wd, on_export=lambda v: out.append(v["sched"]), timeout=3000)
        tlc_ok(res, "Session schedules")
        if res.violated:
            raise common.MachineryError("Session: %s violated" % res.violated)
        ctx.add_tlc(res, label)
        return out
    finally:
        rmtree(wd)


def truncate(text, ntok):
    """A prefix of `text` holding at most ntok tokens (so that TLC's schedule space stays small)."""
    from ..lexrun import lex_trace
    calls = lex_trace(text, "x.c")["calls"]
    if len(calls) <= ntok + 1:
        return text
    return text[:calls[ntok - 1]["st"]["pos"]]


def run(tier):
    ctx = Ctx("C13", tier, "model_checking")
    rnd = random.Random(ctx.seed)
    ctx.cov["rule"] = ("every interleaving at token granularity of 2-3 parses of short programs with clashing names "
                       "(enumerated by TLC from Session.tla, replayed with a scheduling lexer), random schedules of long "
                       "programs, free-running threads; a case is one schedule")
    plans = [([0, 1], 5), ([2, 3], 5), ([4, 5], 5), ([6, 7], 5), ([3, 4], 4), ([0, 1, 2], 2)] if tier == "quick" else \
        [([0, 1], 7), ([2, 3], 7), ([4, 5], 7), ([6, 7], 8), ([0, 3], 6), ([3, 5], 6), ([0, 1, 2], 3), ([3, 4, 5], 3), ([0, 1, 2, 3], 1)]
    total = 0
    for idxs, ntok in plans:
        progs = [truncate(PROGS[i], ntok) for i in idxs]
        steps = [steps_of(p) for p in progs]
        solo = [run_schedule([p if j == i else "" for j in range(len(progs))], [i] * 64)[i] for i, p in enumerate(progs)]
        scheds = schedules(ctx, steps, "all schedules of %d parses x %s token() calls" % (len(progs), steps))
        frame = []
        for s in scheds:
            r = run_schedule(progs, s, frame=frame if total % 50 == 0 else None)
            total += 1
            if r != solo:
                bad = [i for i in range(len(progs)) if r[i] != solo[i]]
                ctx.fail("schedule %s changes the result of parse %s (programs %s)" % (s, bad, idxs),
                         dict(kind="schedule", progs=progs, sched=s))
        if frame:
            ctx.fail("module-level state changed during a step of instance %s" % frame[:3], dict(kind="frame", progs=progs))
        ctx.note("schedules_%s" % "_".join(map(str, idxs)), len(scheds))
        ctx.sample(dict(programs=progs, a_schedule=scheds[len(scheds) // 2]))
    # two-switch schedules x^k y^j x* y* of medium-sized programs: every pair (how far A is, how far B is) meets once.
    # Complete within its shape; it is the shape in which state shared through a class attribute or a module-level
    # object of one parse is clobbered while another sits between saving and using it.
    pairs = [(0, 1), (0, 2), (1, 2), (2, 3), (3, 4), (0, 4), (5, 6), (6, 5), (5, 2)] if tier == "quick" else \
        [(a, b) for a in range(len(MEDIUM)) for b in range(len(MEDIUM)) if a != b]
    n2 = 0
    for a, b in pairs:
        progs = [MEDIUM[a], MEDIUM[b]]
        st = [steps_of(p) for p in progs]
        solo = [run_schedule([p if j == i else "" for j in range(2)], [i] * (st[i] + 4))[i] for i, p in enumerate(progs)]
        for k in range(0, st[0] + 1):
            for j in range(1, st[1] + 1):
                sched = [0] * k + [1] * j
                r = run_schedule(progs, sched)
                n2 += 1
                if r != solo:
                    bad = [i for i in range(2) if r[i] != solo[i]]
                    ctx.fail("two-switch schedule (A runs %d token() calls, then B %d, then A and B to the end) changes the result of parse %s (MEDIUM %d, %d)" % (
                        k, j, bad, a, b), dict(kind="schedule", progs=progs, sched=sched))
                    break
    total += n2
    ctx.note("two_switch_schedules", n2)
    ctx.count(total, nontrivial=total, traces=total)
    # random schedules of long programs, validated per instance against ParserTrace
    nlong = 40 if tier == "quick" else 2000
    solo = [run_schedule([p if j == i else "" for j in range(3)], [i] * 400)[i] for i, p in enumerate(LONG)]
    traces = []
    for k in range(nlong):
        sched = [rnd.randrange(3) for _ in range(300)]
        record = k < (12 if tier == "quick" else 100)
        if record:
            with ptrace.Recorder() as rec:
                r = run_schedule(LONG, sched)
            for t in ptrace.assemble(rec.events):
                if t["done"]:
                    # parse i is given the file name f<i>.c
                    txt = [LONG[int(t["file"][1:-2])]] if re.fullmatch(r"f\d\.c", t["file"] or "") else []
                    if txt and len(txt[0]) != t["n"]:
                        raise common.MachineryError("trace of %s has text length %d, program has %d" % (t["file"], t["n"], len(txt[0])))
                    if txt and ptrace.ascii_ok(txt[0]):
                        traces.append(dict(text=txt[0], file=t["file"], ev=t["ev"]))
        else:
            r = run_schedule(LONG, sched)
        if r != solo:
            ctx.fail("random schedule changes a result", dict(kind="schedule", progs=LONG, sched=sched))
    ctx.count(nlong, nontrivial=nlong, traces=nlong)
    acc, res = ptrace.validate(traces, "per-instance traces", R=64)
    ctx.add_tlc(res, "ParserTrace on per-instance projections of interleaved event streams")
    for i, tr in enumerate(traces, 1):
        if i not in acc:
            ctx.fail("per-instance trace under interleaving is not a behaviour of ParserTrace: %s" % ptrace.explain(tr, R=64),
                     dict(kind="trace", text=tr["text"]))
    ctx.count(len(traces), traces=len(traces))
    ctx.note("per_instance_traces_validated", len(traces))
    free_running(ctx, tier, solo)
    generators(ctx, rnd, tier)
    ctx.cov["exhaustive"] = True
    ctx.assumptions += ["the scheduling lexer subclasses CLexer and only adds a hand-over before token()"]
    return ctx.finish()


def free_running(ctx, tier, solo):
    from pycparser import c_parser
    old = sys.getswitchinterval()
    sys.setswitchinterval(1e-6)
    try:
        runs = 30 if tier == "quick" else 200
        d0 = digest()
        for _ in range(runs):
            res = [None] * 6

            def w(i):
                try:
                    res[i] = ("ast", proj(c_parser.CParser().parse(LONG[i % 3], "f%d.c" % (i % 3)), coords=True))
                except Exception as e:  # noqa
                    res[i] = ("exc", type(e).__name__, str(e))

            ts = [threading.Thread(target=w, args=(i,)) for i in range(6)]
            for t in ts:
                t.start()
            for t in ts:
                t.join()
            for i in range(6):
                if res[i] != solo[i % 3]:
                    ctx.fail("free-running threads: parse %d differs from its solo result" % i, dict(kind="threads"))
            if digest() != d0:
                ctx.fail("module-level state changed during free-running parses", dict(kind="frame"))
        ctx.count(runs, traces=runs)
        ctx.note("free_running_thread_rounds", runs)
    finally:
        sys.setswitchinterval(old)


def generators(ctx, rnd, tier):
    """Two CGenerator instances used alternately, statement by statement."""
    from pycparser import c_parser, c_generator, c_ast
    asts = [c_parser.CParser().parse(t, "g.c") for t in LONG] + [
        c_parser.CParser().parse("struct S { int a; struct { int b; } c; }; void f(void) { if (1) { while (2) { x; } } }", "g.c")]
    n = 0
    for _ in range(100 if tier == "quick" else 2000):
        a, b = rnd.choice(asts), rnd.choice(asts)
        ga, gb = c_generator.CGenerator(), c_generator.CGenerator(reduce_parentheses=True)
        outa, outb = [], []
        ia, ib = list(a.ext), list(b.ext)
        while ia or ib:
            if ia and (not ib or rnd.random() < 0.5):
                outa.append(ga.visit(c_ast.FileAST([ia.pop(0)])))
            else:
                outb.append(gb.visit(c_ast.FileAST([ib.pop(0)])))
        n += 1
        if "".join(outa) != c_generator.CGenerator().visit(a) or \
                "".join(outb) != c_generator.CGenerator(reduce_parentheses=True).visit(b):
            ctx.fail("interleaved CGenerator instances influence each other", dict(kind="generator"))
    ctx.count(n, traces=n)
    ctx.note("interleaved_generator_pairs", n)


def replay(path):
    r = json.load(open(path))["replay"]
    if r.get("kind") == "schedule":
        progs = r["progs"]
        solo = [run_schedule([p if j == i else "" for j in range(len(progs))], [i] * 400)[i] for i, p in enumerate(progs)]
        if run_schedule(progs, r["sched"]) != solo:
            print("VIOLATION property=C13 replay=%s" % path)
            print("  what: schedule changes a result")
            return 1
    return 0
