"""C05: statement ASTs mirror C's statement nesting and source order.

spec -> code: TLC enumerates the function bodies derivable from spec/CStmt.tla (C99 6.8 with
dangling else, labels / case / default prefixes, the three for-init forms, pragmas at every
boundary, switch-body regrouping) up to a bound on statement nodes; every complete state
carries the expected body; the body is parsed as `void f(void) <body>` and the projected
Compound must be equal.  SourceOrder and Regrouped are checked by TLC on the specification.
code -> spec: the statements of the corpus go through the matcher (Stmt / Switch / PragmaWrap
of spec/FrontTrace.tla) and the recorded switchfix events are compared with the regrouping rule.
"""
import json
import random

from .. import common
from ..common import Ctx, tlc, tlc_ok, pmap, mc_module, workdir, rmtree
from ..proj import proj, diff
from .. import corpus, matcher, ptrace

ALL = ["expr", "empty", "compound0", "compound1", "compound2", "compound3", "ifelse", "if", "while", "do", "for", "for0",
       "fordecl", "switch", "case", "default", "label", "goto", "break", "continue", "return", "returne", "pragma_sub",
       "pragmaop_sub", "pragma2_sub", "pragmarun_lo", "pragmarun_ol", "pragmarun_oo", "pragmarun_lol", "pragmarun_olo", "pragmarun_ool", "item_decl", "item_decl_init", "item_sassert", "item_pragma", "item_pragmaop"]
SWITCHY = ["expr", "compound2", "compound3", "if", "ifelse", "switch", "case", "default", "label", "break", "pragma_sub",
           "item_decl", "item_pragma"]
REDUCED = ["expr", "empty", "compound1", "compound2", "ifelse", "if", "while", "do", "for", "switch", "case", "default",
           "label", "return", "item_decl", "pragma_sub", "item_pragma"]


def xstrip(v):
    if isinstance(v, dict):
        return {k: xstrip(x) for k, x in v.items() if not k.startswith("x")}
    if isinstance(v, list):
        return [xstrip(x) for x in v]
    return v


def text_of(toks):
    return "void f(void) " + " ".join(toks).replace(" \n", "\n").replace("\n ", "\n")


def check_case(c):
    from pycparser import c_parser
    src = text_of(c["toks"])
    try:
        ast = c_parser.CParser().parse(src, "s.c")
    except Exception as e:
        return "body rejected: %s: %s feat=%s" % (type(e).__name__, str(e)[:60], ",".join(sorted(c["feat"]))), src
    d = diff(xstrip(c["ast"]), proj(ast.ext[0].body))
    if d:
        import re
        d = re.sub(r"\[\d+\]", "[i]", d)
        path, _, rest = d.partition(": ")
        if len(path) > 60:          # a deep path: keep its end (the findings file is keyed on the last segments)
            path = ".." + path[-60:]
        return "body differs: %s: %s feat=%s" % (path, rest[:80], ",".join(sorted(c["feat"]))), src
    return None


def _work(chunk):
    bad = []
    for c in chunk:
        r = check_case(c)
        if r:
            bad.append((c, r[0], r[1]))
    return len(chunk), bad


def enumerate_bodies(ctx, label, nodes, kinds, simulate=None, seed=None):
    wd = workdir("c05")
    try:
        path, sub = mc_module(wd, "CStmt", dict(MaxNodes=nodes, Kinds=set(kinds)))
        ex = []
        invs = "INVARIANT SourceOrder\nINVARIANT Regrouped\n" if simulate is None else ""
        res = tlc(path, sub + "INIT Init\nNEXT Next\n" + invs + "INVARIANT Export\nCHECK_DEADLOCK FALSE\n", wd=wd,
                  on_export=ex.append, timeout=3000, simulate=simulate, depth=400 if simulate else None, seed=seed,
                  workers=8 if simulate else None)
        tlc_ok(res, "CStmt " + label)
        if res.violated:
            raise common.MachineryError("CStmt %s: %s violated" % (label, res.violated))
        ctx.add_tlc(res, label)
        seen, uniq = set(), []
        for e in ex:
            k = " ".join(e["toks"])
            if k not in seen:
                seen.add(k)
                uniq.append(e)
        uniq.sort(key=lambda e: " ".join(e["toks"]))
        return uniq
    finally:
        rmtree(wd)


def replay_bodies(ctx, cases, label):
    chunks = [cases[i:i + 300] for i in range(0, len(cases), 300)]
    n = 0
    for cnt, bad in pmap(_work, chunks, chunk=1):
        n += cnt
        for c, sig, src in bad:
            ctx.fail(sig, dict(kind="body", case=dict(toks=c["toks"], ast=c["ast"], feat=c["feat"]), src=src))
    ctx.count(n, nontrivial=n, traces=n)
    ctx.note("population_" + label, n)


def run(tier):
    ctx = Ctx("C05", tier, "model_checking")
    rnd = random.Random(ctx.seed)
    ctx.cov["rule"] = ("function bodies derived by TLC from spec/CStmt.tla up to MaxNodes statement nodes over the full alphabet "
                       "(30 productions incl. pragma lines and _Pragma at item and sub-statement positions), deeper over a reduced "
                       "alphabet and over a switch-focused alphabet; a case is a distinct body")
    plans = [("all productions, <=3 nodes", 3, ALL), ("switch-focused, <=5 nodes", 5, SWITCHY), ("reduced alphabet, <=4 nodes", 4, REDUCED),
             ("nested switches and runs of labels, <=7 nodes", 7, ["expr", "compound2", "switch", "case", "default", "break"]),
             ("switch blocks with pragmas and bare blocks, <=7 nodes", 7, ["expr", "compound0", "compound3", "switch", "case", "item_pragma"])]
    if tier == "thorough":
        # (one more statement node multiplies the population by ~40: the exhaustive bounds stay those of the quick tier
        # - every exported body is held with its tree - and depth comes from the larger simulation below)
        plans = plans + [("nested switches and runs of labels with three-item blocks, <=7 nodes", 7,
                          ["expr", "compound2", "compound3", "switch", "case", "default", "break"])]
    allc = []
    for label, nodes, kinds in plans:
        cases = enumerate_bodies(ctx, label, nodes, kinds)
        if tier == "quick" and len(cases) > 60000:
            cases = rnd.sample(cases, 60000)
        replay_bodies(ctx, cases, label)
        allc += cases
    sim = enumerate_bodies(ctx, "simulated bodies of 12 nodes", 12, ALL, simulate=1500 if tier == "quick" else 40000, seed=ctx.seed + 29)
    replay_bodies(ctx, sim, "simulated")
    for c in rnd.sample(allc, 2):
        ctx.sample(dict(body=" ".join(c["toks"]), expected=xstrip(c["ast"])))
    from .. import longunit
    from .c16 import LISTS
    jobs = longunit.list_jobs(["block_items"], {"block_items": LISTS["block_items"][2]}, rnd, 10 if tier == "quick" else 100)
    nl = 0
    for cnt, bad in pmap(longunit.check_list, jobs, chunk=4):
        nl += cnt
        for sig, text in bad:
            ctx.fail("long list: " + sig, dict(kind="list", text=text))
    ctx.count(len(jobs), nontrivial=len(jobs), traces=nl)
    ctx.note("long_lists", dict(lists=len(jobs), items=nl))
    monitor(ctx, tier)
    ctx.cov["exhaustive"] = True
    ctx.assumptions += ["expressions are collapsed to numbered identifiers (C02 covers them)"]
    return ctx.finish()


def regroup(inp):
    """The regrouping rule on the shapes logged by the switchfix hook: inp = [[kind, chainlen]]."""
    out = []
    for kind, n in inp:
        if kind in ("Case", "Default"):
            for j in range(n):
                out.append(["label", 0])
        elif out and out[-1][0] == "label":
            out[-1][1] += 1
        else:
            out.append(["stmt", 0])
    return out


def monitor(ctx, tier):
    from pycparser import c_parser
    nsw = 0
    with ptrace.Recorder() as rec:
        for name, txt in corpus.preprocessed(None):
            try:
                c_parser.CParser().parse(txt, name)
            except Exception:
                pass
        for src in ["void f(int a){ switch(a){ int q; case 1: case 2: a++; { case 3: ; } default: break; L: case 4: ; a--; } }",
                    "void g(int a){ switch(a) case 1: a = 2; switch (a) {} switch (a) { a = 1; a = 2; } }"]:
            try:
                c_parser.CParser().parse(src, "m.c")
            except Exception as e:
                ctx.fail("valid switch program rejected: %s: %s" % (type(e).__name__, str(e)[:80]), dict(kind="body", src=src))
    for e in rec.events:
        if e["e"] == "switchfix":
            nsw += 1
            want = regroup(e["inp"])
            got = []
            for kind, nstmts, nlab in e["out"]:
                if kind in ("Case", "Default"):
                    got.append(["label", nstmts])
                else:
                    got.append(["stmt", 0])
            # a chain Case(Case(s)) contributes its innermost statement to the last label of the chain
            exp = []
            for kind, n in e["inp"]:
                if kind in ("Case", "Default"):
                    for j in range(n):
                        exp.append(["label", 1 if j == n - 1 else 0])
                elif exp and exp[-1][0] == "label":
                    exp[-1][1] += 1
                else:
                    exp.append(["stmt", 0])
            if got != exp:
                ctx.fail("switchfix event: input shape %s regrouped to %s, the rule gives %s" % (e["inp"], got, exp), dict(kind="switchfix"))
    ctx.count(nsw, traces=nsw)
    ctx.note("switchfix_events_validated", nsw)


def replay(path):
    r = json.load(open(path))["replay"]
    if r.get("kind") == "list":
        print("replay: a long list (text in the file); the comparison with its items parsed alone is made by re-running the check")
        return 0
    res = check_case(r["case"])
    if res:
        print("VIOLATION property=C05 replay=%s" % path)
        print("  what:", res[0], "::", res[1])
        return 1
    return 0
