"""C17: the AST (minus coordinates) depends only on the token sequence.

Spec level: LayoutInvariant of spec/CLex.tla is model-checked - token, gap, token(, gap, token)
texts lex to the chosen tokens whatever separating gap (blanks, newlines, #line, linemarkers)
lies between them.  spec -> code: programs derived by TLC (CGram.tla, CExpr.tla) and the corpus
are re-laid out (one line, one token per line, tight, random white space, random line
directives); every variant must give the same AST up to coordinates and the same generated
text.  Redundant parentheses: the matcher (FrontTrace.tla) reports the token span of every
expression node; wrapping the span of any non-comma expression in parentheses must change
nothing but coordinates.
"""
import json
import random

from .. import common
from ..common import Ctx, tlc, tlc_ok, pmap, mc_module, workdir, rmtree
from ..proj import proj, diff
from .. import corpus, matcher, layout, ptrace
from . import c01, c02, c09

MODES = ["space", "lines", "tight", "random", "markers", "sameline", "flagged"]


def _variants(args):
    """Worker: toks (spellings) -> list of failures."""
    toks, seed = args
    from pycparser import c_parser, c_generator
    rnd = random.Random(seed)
    base_text = layout.render(toks, "space", rnd)
    try:
        a0 = c_parser.CParser().parse(base_text, "l.c")
    except Exception:
        return 0, []
    p0 = proj(a0)
    g0 = c_generator.CGenerator().visit(a0)
    fails = []
    n = 0
    for mode in MODES[1:]:
        text = layout.render(toks, mode, rnd)
        n += 1
        try:
            a = c_parser.CParser().parse(text, "l.c")
        except Exception as e:
            fails.append(("layout %s rejected: %s: %s" % (mode, type(e).__name__, str(e)[:80]), text))
            continue
        d = diff(p0, proj(a))
        if d:
            fails.append(("layout %s changes the AST: %s" % (mode, d[:120]), text))
            continue
        if c_generator.CGenerator().visit(a) != g0:
            fails.append(("layout %s changes the generated text" % mode, text))
    return n, fails


def _paren_variants(args):
    """Worker: (token spellings, spans [(first,last)], seed) -> failures."""
    toks, spans, seed = args
    from pycparser import c_parser, c_generator
    rnd = random.Random(seed)
    text0 = " ".join(toks)
    try:
        a0 = c_parser.CParser().parse(text0, "l.c")
    except Exception:
        return 0, []
    p0 = proj(a0)
    g0 = c_generator.CGenerator().visit(a0)
    fails = []
    n = 0
    for (a, b) in rnd.sample(spans, min(len(spans), 12)):
        v = toks[:a - 1] + ["("] + toks[a - 1:b] + [")"] + toks[b:]
        text = " ".join(v)
        n += 1
        try:
            ast = c_parser.CParser().parse(text, "l.c")
        except Exception as e:
            fails.append(("redundant parentheses around tokens %d..%d rejected: %s: %s" % (a, b, type(e).__name__, str(e)[:60]), text))
            continue
        d = diff(p0, proj(ast))
        if d:
            fails.append(("redundant parentheses around tokens %d..%d change the AST: %s" % (a, b, d[:120]), text))
        elif c_generator.CGenerator().visit(ast) != g0:
            fails.append(("redundant parentheses around tokens %d..%d change the generated text" % (a, b), text))
    return n, fails


def _red_work(chunk):
    out = []
    n = 0
    for case in chunk:
        n += 4
        for cname, sig, src in c02.check_one(case, ["statement", "initializer", "labelled", "case_statement"]):
            out.append((sig, src))
    return n, out


def spec_level(ctx, tier):
    wd = workdir("c17")
    try:
        gaps = [g for g in c09.GAPS if g != "" and "pragma" not in g]
        a, b = (c09.VOCAB[:45], c09.VOCAB[45:95]) if tier == "quick" else (c09.VOCAB, c09.VOCAB)
        path, sub = mc_module(wd, "CLex", dict(Shape=[set(a), set(gaps), set(b)], Types=c09.TYPES))
        res = tlc(path, sub + "INIT Init\nNEXT Next\nINVARIANT LayoutInvariant\nCHECK_DEADLOCK FALSE\n", wd=wd, timeout=3000, xss="256m")
        tlc_ok(res, "CLex LayoutInvariant")
        if res.violated:
            raise common.MachineryError("LayoutInvariant violated on the specification itself")
        ctx.add_tlc(res, "CLex LayoutInvariant: token gap token over %dx%dx%d" % (len(a), len(gaps), len(b)))
    finally:
        rmtree(wd)


def run(tier):
    ctx = Ctx("C17", tier, "model_checking")
    rnd = random.Random(ctx.seed)
    ctx.cov["rule"] = ("token sequences of programs derived by TLC (CGram, CExpr, Scope histories) and of the corpus, each under 6 re-layouts "
                       "compared with the one-line layout (AST without coordinates and generated text), plus redundant "
                       "parentheses around matcher-reported expression spans; a case is one variant")
    spec_level(ctx, tier)
    progs = [e["toks"] for e in c01.derive(ctx, "CGram fuel<=2", 2)]
    progs = rnd.sample(progs, 2500 if tier == "quick" else len(progs))
    sim = [e["toks"] for e in c01.derive(ctx, "CGram simulated", 12, simulate=400 if tier == "quick" else 10000,
                                         depth=400, seed=ctx.seed + 13)]
    ex = []
    res = tlc("CExpr", c02.cfg_text(2, ["min", "full"], True, inv=False), on_export=ex.append)
    tlc_ok(res, "CExpr")
    ex.sort(key=lambda e: (e["mode"], " ".join(e["toks"])))
    ctx.add_tlc(res, "CExpr ops<=2")
    exprs = [["void", "f", "(", "void", ")", "{"] + e["toks"] + [";", "}"] for e in rnd.sample(ex, 1500 if tier == "quick" else len(ex))]
    ctoks = []
    for name, txt in corpus.preprocessed(None):
        tk, ast, exc = matcher.parse_with_tokens(txt, name)
        if ast is None:
            continue
        vals = []
        i = 0
        while i < len(tk):
            t = tk[i]
            if t[0] == "PPPRAGMA":
                s = "\n#pragma"
                if i + 1 < len(tk) and tk[i + 1][0] == "PPPRAGMASTR":
                    s += " " + tk[i + 1][1]
                    i += 1
                vals.append(s + "\n")
            else:
                vals.append(t[1])
            i += 1
        ctoks.append(vals)
    reps = 1 if tier == "quick" else 5
    # declaration histories of Scope.tla (typedef / object / enumerator / parameter / for-init across nested scopes, ending in a
    # use that is grammatical both as a type and as an expression): what an identifier IS must not depend on the layout
    from . import c04
    import re as _re
    hist = c04.enumerate_histories(ctx, "Scope: 1 name, <=5 items, depth 2 (layout population)", ["T"], 5, 2,
                                   {"typedef", "obj", "enum", "func0", "open", "forinit", "proto"}, None)
    hist = rnd.sample(hist, min(len(hist), 1500 if tier == "quick" else 20000))
    scope_toks = []
    for h in hist:
        for sh in c04.shapes_for(h["prog"], h["depth"]):
            src, _ = c04.render(h["prog"], sh)
            scope_toks.append(_re.findall(r'[A-Za-z_]\w*|\d+|\.\.\.|->|\+\+|--|<<=|>>=|[-+*/%&|^<>=!]=|&&|\|\||<<|>>|"[^"]*"|\S', src))
    ctx.note("population_scope_histories", dict(histories=len(hist), programs=len(scope_toks)))
    allp = progs + sim + exprs + scope_toks + ctoks * reps
    n = 0
    for cnt, fails in pmap(_variants, [(t, rnd.randrange(1 << 30)) for t in allp], chunk=32):
        n += cnt
        for sig, text in fails:
            ctx.fail(sig, dict(kind="layout", text=text))
    ctx.count(n, nontrivial=len(allp), traces=n)
    ctx.note("population_layouts", dict(programs=len(allp), variants=n))
    # redundant parentheses
    sample = [t for t in rnd.sample(progs + sim, 600 if tier == "quick" else 6000) if matcher.in_domain_tokens(t)] + ctoks + \
        rnd.sample(exprs, 300 if tier == "quick" else 3000)
    cases, keep = [], []
    for t in sample:
        text = " ".join(t)
        if not ptrace.ascii_ok(text):
            continue
        tk, ast, exc = matcher.parse_with_tokens(text, "l.c")
        if ast is None:
            continue
        cases.append(matcher.case_of(tk, ast))
        keep.append([x[1] if x[0] not in ("PPPRAGMA", "PPPRAGMASTR") else None for x in tk])
    acc, _, res = matcher.validate(cases, "spans", spans=True)
    ctx.add_tlc(res, "FrontTrace expression spans")
    jobs = []
    for i, (c, vals) in enumerate(zip(cases, keep), 1):
        if i not in acc or any(v is None for v in vals):
            continue
        nodes = c["nodes"]
        spans = sorted({(a, b) for nid, a, b in res.spans.get(i, []) if nodes[nid - 1]["k"] != "ExprList" and b >= a})
        if spans:
            jobs.append((vals, spans, rnd.randrange(1 << 30)))
    n = 0
    for cnt, fails in pmap(_paren_variants, jobs, chunk=16):
        n += cnt
        for sig, text in fails:
            ctx.fail(sig, dict(kind="parens", text=text))
    ctx.count(n, nontrivial=len(jobs), traces=n)
    ctx.note("population_redundant_parentheses", dict(programs=len(jobs), variants=n))
    # redundant parentheses, specification side: the "red" derivations of CExpr put one redundant pair around any
    # operand (leaves and the base operands of postfix / unary / sizeof expressions included); the tree is the one
    # of the derivation without them
    red = []
    res = tlc("CExpr", c02.cfg_text(2, ["red"], True, inv=False), on_export=red.append)
    tlc_ok(res, "CExpr red")
    red.sort(key=lambda e: " ".join(e["toks"]))
    ctx.add_tlc(res, "CExpr ops<=2, one redundant pair around any operand")
    if tier == "quick":
        red = rnd.sample(red, min(len(red), 30000))
    n = 0
    for cnt, fails in pmap(_red_work, [red[i:i + 300] for i in range(0, len(red), 300)], chunk=1):
        n += cnt
        for sig, src in fails:
            ctx.fail("redundant parentheses (CExpr red): " + sig, dict(kind="parens", text=src))
    ctx.count(n, nontrivial=len(red), traces=n)
    ctx.note("population_redundant_parentheses_spec", dict(derivations=len(red), parses=n))
    if allp:
        ctx.sample(dict(tokens=" ".join(allp[0])[:300], layouts=MODES))
    ctx.assumptions += ["the baseline is the one-line layout of the same token sequence; #pragma lines are kept on lines of their own"]
    return ctx.finish()


def replay(path):
    from pycparser import c_parser
    r = json.load(open(path))["replay"]
    try:
        c_parser.CParser().parse(r["text"], "l.c")
        print("replay parses; compare with its one-line layout by re-running the check")
        return 0
    except Exception as e:
        print("VIOLATION property=C17 replay=%s" % path)
        print("  what: variant rejected:", e)
        return 1
