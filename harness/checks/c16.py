"""C16: parsing work grows linearly with input size - no backtracking blow-up.

spec/Families.tla holds the self-embedding structure of the C grammar as data (pumps); TLC
enumerates every simple cycle of pumps up to MaxCycle - each recursive construct and every
nesting of two or three different constructs.  Each family is instantiated at sizes k, 2k, 4k
(, 8k) and the deterministic work (Python call events inside pycparser, via sys.setprofile) must
at most double (x 2.6 tolerance) per doubling.  code -> spec: the hook trace of the largest
instance that fits is validated against spec/ParserTrace.tla with the re-consumption bound R.
Lexer regexes: adversarial literal families, wall time with wide margins.
"""
import json
import random
import sys
import threading
import time

from .. import common
from ..common import Ctx, tlc, tlc_ok, mc_module, workdir, rmtree, pmap
from .. import ptrace

# nonterminals: E expression, T type-name, S statement, D declarator (named), I initializer, B block items, X external decls
PUMPS = [
    dict(n="paren", **{"from": "E", "to": "E"}, pre="( ", post=" )"),
    dict(n="cast", **{"from": "E", "to": "E"}, pre="( int ) ", post=""),
    dict(n="sizeof", **{"from": "E", "to": "E"}, pre="sizeof ( ", post=" )"),
    dict(n="sizeof_noparen", **{"from": "E", "to": "E"}, pre="sizeof - ", post=""),
    dict(n="unary", **{"from": "E", "to": "E"}, pre="- ", post=""),
    dict(n="deref", **{"from": "E", "to": "E"}, pre="* ", post=""),
    dict(n="call", **{"from": "E", "to": "E"}, pre="f ( ", post=" )"),
    dict(n="index", **{"from": "E", "to": "E"}, pre="a [ ", post=" ]"),
    dict(n="postfix_index", **{"from": "E", "to": "E"}, pre="", post=" [ 1 ]"),
    dict(n="binop_left", **{"from": "E", "to": "E"}, pre="", post=" + 1"),
    dict(n="binop_right", **{"from": "E", "to": "E"}, pre="1 + ", post=""),
    dict(n="ternary", **{"from": "E", "to": "E"}, pre="a ? b : ", post=""),
    dict(n="ternary_mid", **{"from": "E", "to": "E"}, pre="a ? ", post=" : b"),
    dict(n="assign", **{"from": "E", "to": "E"}, pre="a = ", post=""),
    dict(n="comma", **{"from": "E", "to": "E"}, pre="a , ", post=""),
    dict(n="member", **{"from": "E", "to": "E"}, pre="", post=" . m"),
    dict(n="sizeof_type", **{"from": "E", "to": "T"}, pre="sizeof ( ", post=" )"),
    dict(n="cast_type", **{"from": "E", "to": "T"}, pre="( ", post=" ) x"),
    dict(n="complit", **{"from": "E", "to": "T"}, pre="( ", post=" ) { 0 }"),
    dict(n="complit_init", **{"from": "E", "to": "E"}, pre="( int ) { ", post=" }"),
    dict(n="alignof", **{"from": "E", "to": "T"}, pre="_Alignof ( ", post=" )"),
    dict(n="stmt_expr", **{"from": "E", "to": "S"}, pre="( { ", post=" } )"),
    dict(n="array_bound", **{"from": "T", "to": "E"}, pre="int [ ", post=" ]"),
    dict(n="fn_param_type", **{"from": "T", "to": "T"}, pre="int ( * ) ( ", post=" )"),
    dict(n="struct_array_member", **{"from": "T", "to": "E"}, pre="struct { int m [ ", post=" ] ; }"),
    dict(n="typeof_bitfield", **{"from": "T", "to": "E"}, pre="struct { int m : ", post=" ; }"),
    dict(n="enum_value", **{"from": "T", "to": "E"}, pre="enum { EC = ", post=" }"),
    dict(n="block", **{"from": "S", "to": "S"}, pre="{ ", post=" }"),
    dict(n="if", **{"from": "S", "to": "S"}, pre="if ( a ) ", post=""),
    dict(n="if_else", **{"from": "S", "to": "S"}, pre="if ( a ) b ; else ", post=""),
    dict(n="if_then_else", **{"from": "S", "to": "S"}, pre="if ( a ) ", post=" else b ;"),
    dict(n="while", **{"from": "S", "to": "S"}, pre="while ( a ) ", post=""),
    dict(n="do", **{"from": "S", "to": "S"}, pre="do ", post=" while ( a ) ;"),
    dict(n="for", **{"from": "S", "to": "S"}, pre="for ( ; ; ) ", post=""),
    dict(n="switch_case", **{"from": "S", "to": "S"}, pre="switch ( a ) case 1 : ", post=""),
    dict(n="label", **{"from": "S", "to": "S"}, pre="L : ", post=""),
    dict(n="stmt_seq", **{"from": "S", "to": "S"}, pre="{ a = b + c ; ", post=" }"),
    dict(n="expr_stmt", **{"from": "S", "to": "E"}, pre="x = ", post=" ;"),
    dict(n="decl_init_stmt", **{"from": "S", "to": "I"}, pre="{ int v = ", post=" ; }"),
    dict(n="init_braces", **{"from": "I", "to": "I"}, pre="{ ", post=" }"),
    dict(n="init_list", **{"from": "I", "to": "I"}, pre="{ 1 , ", post=" }"),
    dict(n="init_designated", **{"from": "I", "to": "I"}, pre="{ . m = ", post=" }"),
    dict(n="init_expr", **{"from": "I", "to": "E"}, pre="", post=""),
    dict(n="pragma_stmt", **{"from": "S", "to": "S"}, pre="\n#pragma p\n", post=""),
    # the hole in a NON-LAST position of a list / before an operator (what follows the hole differs from the plain pumps)
    dict(n="call_first_arg", **{"from": "E", "to": "E"}, pre="f ( ", post=" , 0 )"),
    dict(n="index_then_index", **{"from": "E", "to": "E"}, pre="a [ ", post=" ] [ 0 ]"),
    dict(n="comma_left", **{"from": "E", "to": "E"}, pre="( ", post=" , a )"),
    dict(n="ternary_cond", **{"from": "E", "to": "E"}, pre="( ", post=" ) ? a : b"),
    dict(n="init_first", **{"from": "I", "to": "I"}, pre="{ ", post=" , 1 }"),
    dict(n="cast_then_member", **{"from": "E", "to": "E"}, pre="( ( struct S * ) ", post=" ) -> m"),
    # statement expressions (GNU; accepted where an assignment-expression is expected: nonterminal A) in non-last
    # positions: composite one-step pumps
    dict(n="stmt_expr_value", **{"from": "A", "to": "A"}, pre="( { x = ", post=" ; } )"),
    dict(n="stmt_expr_arg1", **{"from": "A", "to": "A"}, pre="g ( ( { x = ", post=" ; } ) , 0 )"),
    dict(n="stmt_expr_index", **{"from": "A", "to": "A"}, pre="a [ ( { x = ", post=" ; } ) ]"),
    dict(n="stmt_expr_ternary_mid", **{"from": "A", "to": "A"}, pre="a ? ( { x = ", post=" ; } ) : b"),
    dict(n="stmt_expr_init_first", **{"from": "A", "to": "A"}, pre="( ( int [ 2 ] ) { ( { x = ", post=" ; } ) , 1 } ) [ 0 ]"),
    dict(n="sizeof_complit_index", **{"from": "E", "to": "E"}, pre="sizeof ( int [ ] ) { ", post=" } [ 0 ]"),
    dict(n="complit_index", **{"from": "E", "to": "E"}, pre="( int [ ] ) { ", post=" } [ 0 ]"),
    dict(n="complit_member", **{"from": "E", "to": "E"}, pre="( struct S ) { ", post=" } . m"),
    dict(n="sizeof_complit", **{"from": "E", "to": "E"}, pre="sizeof ( int [ ] ) { ", post=" }"),
    dict(n="cast_complit", **{"from": "E", "to": "E"}, pre="( int ) ( int ) { ", post=" }"),
    dict(n="complit_arg1", **{"from": "E", "to": "E"}, pre="g ( ( int ) { ", post=" } , 0 )"),
    dict(n="sizeof_arg1", **{"from": "E", "to": "E"}, pre="g ( sizeof ( ", post=" ) , 0 )"),
]
BASE = {"E": "1", "T": "int", "S": ";", "I": "1", "A": "1"}
ROOT = {"A": "void f ( void ) { x = %s ; }", "E": "void f ( void ) { x = %s ; }", "T": "int x = sizeof ( %s ) ;", "S": "void f ( void ) { %s }",
        "I": "int x [ ] = %s ;"}
# repetition / declarator families that are not hole-to-hole pumps
EXTRA = {
    "repeat_decl": lambda k: "int a ; " * k,
    "repeat_typedef_use": lambda k: "typedef int T ; " + "T a ; " * k,
    "repeat_funcdef": lambda k: "void f ( void ) { } " * k,
    "repeat_struct_member": lambda k: "struct S { " + "int a ; " * k + "} ;",
    "repeat_enum": lambda k: "enum E { " + "A , " * k + "B } ;",
    "repeat_param": lambda k: "void f ( " + "int a , " * k + "int b ) ;",
    "repeat_arg": lambda k: "void f ( void ) { g ( " + "1 , " * k + "2 ) ; }",
    "repeat_string_concat": lambda k: "char * s = " + '"a" ' * (k + 1) + ";",
    "repeat_case": lambda k: "void f ( void ) { switch ( a ) { " + "case 1 : b ; " * k + "} }",
    "repeat_declarator_list": lambda k: "int " + "a , " * k + "b ;",
    "repeat_pragma": lambda k: "\n#pragma p\n" * k + "int x ;",
    "repeat_line_directive": lambda k: "\n# 5 \"f.h\"\n" * k + "int x ;",
    "ptr_declarator": lambda k: "int " + "* " * k + "p ;",
    "array_declarator": lambda k: "int a " + "[ 1 ] " * k + ";",
    "paren_declarator": lambda k: "int " + "( " * k + "p " + ") " * k + ";",
    "fnptr_declarator": lambda k: "int " + "( * " * k + "f " + ") ( void ) " * k + ";",
    "param_nest": lambda k: "void f ( " + "int ( * g ) ( " * k + "int " + ") " * k + ") ;",
    "struct_nest": lambda k: "struct S { " * k + "int a ; " + "} m ; " * k,
    "repeat_funcdef_hiding_param": lambda k: "typedef int T ; " + "void f ( int T ) { T = 1 ; } " * k,
    "repeat_block_hiding_local": lambda k: "typedef int T ; void f ( void ) { " + "{ int T ; T = 1 ; } " * k + "}",
    "repeat_retypedef": lambda k: "typedef int T ; void f ( void ) { " + "{ typedef char T ; T c ; } " * k + "}",
    "kr_params": lambda k: "int f ( " + "a , " * k + "b ) " + "int a ; " * 1 + "int b ; { }",
}


# flat lists: name -> (template, separator, item spellings); every program starts with the typedef of T
LISTS = {
    "params_proto": ("void f ( %s ) ;", " , ",
                     ["int a", "int", "int *", "int ( * ) ( int )", "char ( * ) [ 4 ]", "int ( )", "int ( * p ) ( int )", "int a [ 3 ]",
                      "struct S * s", "T", "T t", "int ( T )", "const int * const", "int [ ]", "int [ static 3 ]", "int ( * ( * ) ( void ) ) [ 2 ]"]),
    "params_def": ("void f ( %s ) { }", " , ", ["int a", "int * a", "int ( * a ) ( int )", "T a", "int a [ ]", "struct S a"]),
    "params_in_cast": ("int x = sizeof ( void ( * ) ( %s ) ) ;", " , ", ["int", "int ( * ) ( int )", "char ( * ) [ 4 ]", "int ( )", "T"]),
    "args": ("void f ( void ) { g ( %s ) ; }", " , ",
             ["1", "a", "( int ) a", "sizeof ( int )", "h ( 1 )", "a [ 1 ]", "( a , b )", "( int ) { 1 }", "\"s\"", "a ? b : c", "* p", "& a",
              "- - a", "( T ) a", "( a )", "a . m"]),
    "init_items": ("int x [ ] = { %s } ;", " , ", ["1", "{ 1 }", ". m = 1", "[ 1 ] = 2", "( int ) 1", "\"s\"", "{ 1 , 2 }", "a + b", "( T ) { 1 }"]),
    "enumerators": ("enum E { %s } ;", " , ", ["A", "A = 1", "A = sizeof ( int )", "A = ( T ) 1"]),
    "members": ("struct S { %s } ;", " ", ["int a ;", "int a : 3 ;", "int * a , b ;", "struct { int x ; } s ;", "int ( * f ) ( int ) ;", "T t ;",
                                            "int : 2 ;", "union { int u ; } ;", "T ( * g ) ( T ) ;"]),
    "declarators": ("int %s ;", " , ", ["a", "* a", "a [ 2 ]", "( * a ) ( int )", "a = 1", "a = { 1 }", "( a )", "a ( int ( * ) ( int ) )"]),
    "block_items": ("void f ( void ) { %s }", " ", ["a = 1 ;", "int v = 1 ;", "if ( a ) b ;", "{ }", "g ( a ) ;", "T * p ;", "L : ;", "( T ) a ;",
                                                      "return ;", "a * b ;", ";", "T ( q ) ;", "for ( int i = 0 ; ; ) ;", "sizeof ( T ) ;"]),
    "externals": ("%s", " ", ["int a ;", "typedef int U ;", "void g ( void ) { }", "struct S { int a ; } ;", "int h ( int ) ;", "T x ;",
                               "int ( * fp ) ( int ( * ) ( int ) ) ;", ";", "T * k ( T ) ;", "enum { A } ;"]),
    "designators": ("int x [ ] = { %s = 1 } ;", " ", ["[ 1 ]", ". m", "[ 1 ] . m"]),
    "qualifiers": ("%s int x ;", " ", ["const", "volatile", "const volatile"]),
    "string_pieces": ("char * s = %s ;", " ", ["\"a\"", "\"b c\""]),
    "case_labels": ("void f ( void ) { switch ( a ) { %s ; } }", " ", ["case 1 :", "default :", "case 1 : b ; break ;", "case ( T ) 1 :"]),
}


def flat(name, idx, k):
    tmpl, sep, items = LISTS[name]
    seq = [items[idx[j % len(idx)] - 1] for j in range(k * len(idx))]
    return "typedef int T ; " + tmpl % sep.join(seq)


def cost_lines(src):
    """Deterministic step count: executed lines inside pycparser while parsing src (a loop that calls nothing does
    not show in call events)."""
    from pycparser import c_parser
    cnt = [0]

    def local(frame, ev, arg):
        if ev == "line":
            cnt[0] += 1
        return local

    def tracer(frame, ev, arg):
        if "pycparser" in frame.f_code.co_filename and not frame.f_code.co_filename.endswith("_verif.py"):
            return local
        return None

    p = c_parser.CParser()
    sys.settrace(tracer)
    try:
        try:
            p.parse(src, "f.c")
            ok = "ok"
        except RecursionError:
            ok = "RecursionError"
        except Exception as e:  # noqa
            ok = type(e).__name__ + ": " + str(e)[:60]
    finally:
        sys.settrace(None)
    return cnt[0], ok


def cost(src):
    """Deterministic step count: Python 'call' events inside pycparser while parsing src."""
    from pycparser import c_parser
    cnt = [0]

    def prof(frame, ev, arg):
        if ev == "call" and "pycparser" in frame.f_code.co_filename:
            cnt[0] += 1

    p = c_parser.CParser()
    sys.setprofile(prof)
    try:
        try:
            p.parse(src, "f.c")
            ok = "ok"
        except RecursionError:
            ok = "RecursionError"
        except Exception as e:  # noqa
            ok = type(e).__name__ + ": " + str(e)[:60]
    finally:
        sys.setprofile(None)
    return cnt[0], ok


def instantiate(cycle, k):
    pre = "".join(p["pre"] for p in cycle)
    post = "".join(p["post"] for p in reversed(cycle))
    nt = cycle[0]["from"]
    return ROOT[nt] % (pre * k + BASE[nt] + post * k)


def source(kind, payload, k):
    if kind == "cycle":
        return instantiate(payload, k)
    if kind == "flat":
        return flat(payload[0], payload[1], k)
    return EXTRA[payload](k)


def measure(args):
    """(name, sizes, kind, payload) -> (name, [(k, cost, ok)], c0)"""
    name, sizes, kind, payload = args
    out = [None]
    lines = name.startswith("lines:")
    costf = cost_lines if lines else cost

    def go():
        res = []
        for k in sizes:
            src = source(kind, payload, k)
            c, ok = costf(src)
            res.append((k, c, ok))
            if c > 1_200_000:
                break
        out[0] = (name, res, costf(source(kind, payload, 0) if kind != "flat" else "typedef int T ;")[0])

    sys.setrecursionlimit(200000)
    threading.stack_size(512 * 1024 * 1024)
    t = threading.Thread(target=go)
    t.start()
    t.join()
    return out[0]


def judge(name, res, c0):
    """Doubling rule: cost(2k)-c0 <= 2.6 (cost(k)-c0) for successive doublings (log factor allowed)."""
    oks = [r for r in res if r[2] in ("ok",)]
    if len(oks) < 2:
        bad = [r for r in res if r[2] not in ("ok", "RecursionError")]
        if bad:
            return "DRIFT family not accepted: %s" % bad[0][2]     # acceptance is C01's concern, not a growth of work
        return None
    for (k1, c1, _), (k2, c2, _) in zip(oks, oks[1:]):
        r = (c2 - c0) / max(1.0, (c1 - c0))
        if k2 == 2 * k1 and r > 2.6:
            return "work grows x%.1f when the size doubles from %d to %d (%d -> %d call events)" % (r, k1, k2, c1, c2)
    return None


def lexer_regex_families(ctx):
    from pycparser import c_lexer
    fams = {
        "escape_run_in_char": lambda n: "'" + "\\1" * n,
        "escape_run_in_string": lambda n: '"' + "\\x1" * n,
        "hex_escape_run": lambda n: "'\\x" + "1" * n,
        "digit_run": lambda n: "0" * n + "9",
        "float_digits": lambda n: "1" * n + "e",
        "unterminated_string": lambda n: '"' + "a" * n,
        "unterminated_char": lambda n: "'" + "a" * n,
        "bad_string_escapes": lambda n: '"' + "\\(" * n + '"',
        "ident_run": lambda n: "a" * n + "$",
        "backslashes": lambda n: '"' + "\\\\" * n,
        "line_directive_flags": lambda n: "# 1 \"f\" " + "1 " * n + "x\n",
        "closed_escape_run_in_char": lambda n: "'" + "\\n" * n + "'",
        "closed_hex_escape_run_in_char": lambda n: "'" + "\\x41" * n + "'",
        "closed_mixed_run_in_char": lambda n: "'" + "a\\0" * n + "'",
        "closed_escape_run_in_string": lambda n: '"' + "\\n" * n + '"',
        "closed_bad_escape_run_in_string": lambda n: '"' + "\\n" * n + "\\(" + '"',
        "prefixed_closed_run": lambda n: "L'" + "\\\\" * n + "'",
    }
    import signal

    def _alarm(sig, frm):
        raise TimeoutError()

    def lex_time(text, n):
        """CPU seconds (best of 3) the lexer needs for `text`; a run is cut off after 5 s of wall time."""
        best = 9e9
        for _ in range(3):
            lx = c_lexer.CLexer(lambda m, l, c: None, lambda: None, lambda: None, lambda s: False)
            lx.input(text, "r.c")
            old = signal.signal(signal.SIGALRM, _alarm)
            signal.alarm(5)
            t0 = time.process_time()
            k = 0
            try:
                while lx.token() is not None and k < 3 * n + 10:
                    k += 1
            except TimeoutError:
                pass
            finally:
                signal.alarm(0)
                signal.signal(signal.SIGALRM, old)
            best = min(best, time.process_time() - t0)
            if best < 0.05:
                break
        return best

    def reference(n):
        """CPU seconds for a plainly linear input of n tokens, measured at the same moment: on a contended (virtualised)
        machine CPU seconds themselves inflate, so an absolute limit is only believed together with this ratio."""
        return max(lex_time("a " * n, n), 1e-4)

    for name, f in fams.items():
        # short inputs: an exponential pattern needs seconds for a few dozen characters
        small = [lex_time(f(n), n) for n in (12, 24)]
        ctx.count(2)
        if max(small) > 0.5 and max(small) > 100 * reference(2000):
            ctx.fail("lexer regex family %s: %.2f s of CPU for an input of %d characters" % (name, max(small), len(f(24))),
                     dict(kind="regex", family=name))
            continue
        # growth: two successive doublings both far above linear, or seconds for a few thousand characters
        big = [lex_time(f(n), n) for n in (2000, 4000, 8000)]
        ctx.count(3)
        if (max(big) > 3.0 and max(big) > 60 * reference(8000)) or (big[0] > 0.01 and big[1] > 3.2 * big[0] and big[2] > 3.2 * big[1]):
            ctx.fail("lexer regex family %s: CPU seconds %s at sizes (2000, 4000, 8000)" % (name, ["%.3f" % t for t in big]),
                     dict(kind="regex", family=name))
    ctx.note("lexer_regex_families", sorted(fams))


def run(tier):
    ctx = Ctx("C16", tier, "exploration")
    rnd = random.Random(ctx.seed)
    maxc = 2 if tier == "quick" else 3
    wd = workdir("c16")
    try:
        path, sub = mc_module(wd, "Families", dict(Pumps=[dict(n=p["n"], src=p["from"], dst=p["to"]) for p in PUMPS],
                                                    MaxCycle=maxc, MaxMix=2,
                                                    Lists=[dict(n=n, items=len(LISTS[n][2])) for n in sorted(LISTS)]))
        cycles = []
        res = tlc(path, sub + "INIT Init\nNEXT Next\nINVARIANT Simple\nINVARIANT Chained\nINVARIANT ListSane\nINVARIANT Export\nINVARIANT ExportList\nCHECK_DEADLOCK FALSE\n",
                  wd=wd, on_export=cycles.append)
        tlc_ok(res, "Families")
        if res.violated:
            raise common.MachineryError("Families: %s violated" % res.violated)
        ctx.add_tlc(res, "Families: simple pump cycles up to length %d over %d pumps" % (maxc, len(PUMPS)))
    finally:
        rmtree(wd)
    # canonical rotation only
    cycles.sort(key=lambda c: json.dumps(c, sort_keys=True))
    fams = {}
    flats = [c for c in cycles if "list" in c]
    cycles = [c for c in cycles if "cyc" in c]
    for c in cycles:
        idx = c["cyc"]
        m = min(range(len(idx)), key=lambda j: idx[j:] + idx[:j])
        key = tuple(idx[m:] + idx[:m])
        fams.setdefault(key, [PUMPS[i - 1] for i in key])
    keys = sorted(fams)
    ones = [k for k in keys if len(k) == 1]
    twos = [k for k in keys if len(k) == 2]
    threes = [k for k in keys if len(k) == 3]
    if tier == "quick":
        keys = ones + rnd.sample(twos, min(len(twos), 140))
    else:
        keys = ones + twos + rnd.sample(threes, min(len(threes), 300))
    sizes = [6, 12, 24] if tier == "quick" else [8, 16, 32, 64]
    jobs = [("+".join(p["n"] for p in fams[k]), [max(2, s // len(k)) * 1 for s in sizes] if False else sizes, "cycle", fams[k]) for k in keys]
    esizes = [32, 64, 128] if tier == "quick" else [64, 128, 256]
    jobs += [(n, esizes, "extra", n) for n in sorted(EXTRA)]
    singles = [f for f in flats if len(f["items"]) == 1]
    mixes = [f for f in flats if len(f["items"]) == 2]
    mixes = rnd.sample(mixes, min(len(mixes), 120 if tier == "quick" else 600))
    fsizes = [24, 48, 96] if tier == "quick" else [32, 64, 128]
    jobs += [("%s[%s]" % (f["list"], " | ".join(LISTS[f["list"]][2][i - 1] for i in f["items"])), fsizes, "flat", (f["list"], f["items"]))
             for f in singles + mixes]
    # the same repetition / flat families measured in executed lines
    jobs += [("lines:" + n, esizes, "extra", n) for n in sorted(EXTRA)]
    jobs += [("lines:%s[%s]" % (f["list"], " | ".join(LISTS[f["list"]][2][i - 1] for i in f["items"])), fsizes, "flat", (f["list"], f["items"]))
             for f in singles]
    ctx.cov["rule"] = ("families = simple cycles of the pump table of Families.tla (nesting and repetition constructs and their "
                       "nestings), the flat lists of Families.tla (every list construct x every item spelling, and alternations of two) plus %d repetition/declarator families; each measured at doubling sizes by counting Python call "
                       "events inside pycparser; a case is one (family, size)" % len(EXTRA))
    from ..common import pool
    results = pool().map(measure, jobs, chunksize=2)
    nmeas = 0
    worst = []
    for (name, res, c0), job in zip(results, jobs):
        nmeas += len(res)
        d = judge(name, res, c0)
        if d and d.startswith("DRIFT"):
            ctx.drift_note("family %s: %s" % (name, d[6:]))
            d = None
        if d:
            ctx.fail("family %s: %s" % (name, d), dict(kind="family", name=name, text=source(job[2], job[3], 4)))
        oks = [r for r in res if r[2] == "ok"]
        if len(oks) >= 2:
            worst.append((round((oks[-1][1] - c0) / max(1, oks[-2][1] - c0), 2), name))
    worst.sort(reverse=True)
    ctx.count(nmeas, nontrivial=len(jobs), traces=nmeas)
    ctx.note("families", dict(measured=len(jobs), pump_cycles=len(keys), largest_last_doubling_ratios=worst[:8]))
    ctx.sample(dict(family=jobs[0][0], instance_at_4=instantiate(jobs[0][3], 4)))
    # code -> spec: ReconsumptionBound on traces of mid-size instances
    traces, names = [], []
    for name, sz, kind, payload in rnd.sample(jobs, min(len(jobs), 60 if tier == "quick" else 400)):
        src = source(kind, payload, 6)
        if ptrace.ascii_ok(src):
            tr, ast, exc = ptrace.record(src, "f.c")
            if ast is not None:
                traces.append(tr)
                names.append(name)
    acc, res = ptrace.validate(traces, "families", R=8, maxuse=True)
    ctx.add_tlc(res, "ParserTrace with ReconsumptionBound R=8 on family instances of size 6")
    mu = ptrace.max_uses(res)
    for i, tr in enumerate(traces, 1):
        if i not in acc:
            ctx.fail("family %s: trace of the size-6 instance violates ParserTrace (re-consumption bound R=8?): %s" % (
                names[i - 1], ptrace.explain(tr, R=8)), dict(kind="family", name=names[i - 1], text=tr["text"]))
    ctx.count(len(traces), traces=len(traces))
    ctx.note("max_reconsumption_of_a_token_index", max(mu.values()) if mu else 0)
    lexer_regex_families(ctx)
    ctx.assumptions += ["work = Python call events in pycparser.* (sys.setprofile), as the property prescribes; the regex engine is "
                        "opaque, its families are timed with wide margins (0.5 s absolute, x3.5 per doubling)"]
    return ctx.finish()


def replay(path):
    r = json.load(open(path))["replay"]
    print("replay: family", r.get("name") or r.get("family"), "- re-run ./check C16 to measure")
    return 0
