"""C11: coordinates point at the real source location of every construct and error.

code -> spec: programs derived by TLC (spec/CGram.tla) are laid out with line directives that
change line and file between arbitrary tokens, parsed under the hooks, and the observed
(tokens, AST) pair is validated by the AST-guided matcher spec/FrontTrace.tla with CoordOK on:
every expression, statement, declaration, declared name, enumerator and function definition
must carry a coordinate that is the (file, line, column) of a token inside its own matched
span - for identifiers, constants, declared names exactly the token that spells them.  Token
positions themselves are bound to the raw text by spec/CLex0 (ParserTrace / C09).
Error locations: single illegal-character injections; spec/ParserTrace.tla requires the
ParseError prefix to be exactly file:line:col of the offending character as the cursor
machine computes it.
"""
import json
import random

from .. import common
from ..common import Ctx
from .. import corpus, matcher, ptrace, layout
from . import c01


def _cases_for(items, rnd, modes):
    """items: list of token-spelling lists.  Returns (cases, names, skipped)."""
    cases, names = [], []
    skipped = 0
    for toks in items:
        for mode in modes:
            text = layout.render(toks, mode, rnd)
            if not matcher.in_domain_tokens(toks) or not ptrace.ascii_ok(text):
                skipped += 1
                continue
            tk, ast, exc = matcher.parse_with_tokens(text, "main.c")
            if ast is None:
                skipped += 1
                continue
            cases.append(matcher.case_of(tk, ast))
            names.append(text)
    return cases, names, skipped


def check_cases(ctx, cases, names, label):
    if not cases:
        return
    acc, coords, res = matcher.validate(cases, label, check_coords=True)
    ctx.add_tlc(res, "FrontTrace+CoordOK " + label)
    nrej = 0
    nnodes = 0
    for i, c in enumerate(cases, 1):
        nnodes += len(c["nodes"])
        if i not in acc:
            nrej += 1
            why = matcher.explain(c) if nrej <= 3 else "(not diagnosed)"
            ctx.fail("matcher rejected (tokens, AST) of a laid-out program: %s" % why, dict(kind="coord", text=names[i - 1]))
            continue
        for kind, nid in sorted(coords.get(i, [])):
            nd = c["nodes"][nid - 1]
            ctx.fail("coordinate of %s %s is %s: not a token of its own construct" % (
                kind, {k: v for k, v in nd.items() if k in ("name", "declname", "op", "value")}, nd["coord"] or "None"),
                dict(kind="coord", text=names[i - 1], node=nid))
    ctx.count(len(cases), nontrivial=len(cases), traces=len(cases))
    ctx.note("population_" + label, dict(programs=len(cases), ast_nodes=nnodes, accepted=len(acc)))


ILLEGAL = ["@", "`", "\\"]


TYPE_NAME_TEXTS = ["int x = ( unsigned long ) y ;", "int x = sizeof ( int * const * ) ;", "int x = ( struct S ) { 1 } . a ;",
                   "int x = sizeof ( int ( * ) ( int a , char b ) ) ;", "void f ( void ) { y = ( const char * ) z + _Alignof ( long long ) ; }",
                   "int x = ( int [ 3 ] ) { 1 , 2 } [ 0 ] + ( short ) 1 ;", "_Alignas ( unsigned int ) int q ; _Atomic ( long int ) r ;"]


def injections(rnd, progs, n):
    out = []
    for t in TYPE_NAME_TEXTS:
        toks = t.split()
        for i in range(len(toks) + 1):
            for bad in ILLEGAL[:2]:
                out.append(" ".join(toks[:i] + [bad] + toks[i:]))
    for _ in range(n):
        toks = list(rnd.choice(progs))
        i = rnd.randrange(len(toks) + 1)
        toks.insert(i, rnd.choice(ILLEGAL))
        out.append(layout.render(toks, rnd.choice(["space", "lines", "markers", "random"]), rnd))
    return out


def run(tier):
    ctx = Ctx("C11", tier, "model_checking")
    rnd = random.Random(ctx.seed)
    ctx.cov["rule"] = ("programs derived by TLC from CGram.tla, each laid out on one line, one token per line and with random "
                       "line directives (file and line changes) between tokens; plus the preprocessed corpus; a case is one "
                       "laid-out program, every AST node of which is checked; error locations: illegal characters injected at "
                       "random token boundaries")
    progs = c01.derive(ctx, "CGram fuel<=2", 2)
    progs = [e["toks"] for e in progs]
    sample = rnd.sample(progs, 700 if tier == "quick" else 8000)
    cases, names, sk = _cases_for(sample, rnd, ["random", "markers", "sameline", "flagged"])
    check_cases(ctx, cases, names, "grammar machine x layouts")
    sim = c01.derive(ctx, "CGram simulated", 12, simulate=300 if tier == "quick" else 4000, depth=400, seed=ctx.seed + 11)
    cases, names, sk2 = _cases_for([e["toks"] for e in sim], rnd, ["markers"])
    check_cases(ctx, cases, names, "deep programs x marker layout")
    ccases, cnames = [], []
    for name, txt in corpus.preprocessed(None):
        if matcher.in_domain(txt) and ptrace.ascii_ok(txt):
            tk, ast, exc = matcher.parse_with_tokens(txt, name)
            if ast is not None:
                ccases.append(matcher.case_of(tk, ast))
                cnames.append(txt)
    check_cases(ctx, ccases, cnames, "corpus")
    ctx.note("skipped_outside_matcher_domain_or_rejected", sk + sk2)
    # error locations (and, on a sample of valid laid-out programs, the token positions themselves against the raw text)
    texts = [t for t in injections(rnd, progs, 1500 if tier == "quick" else 20000) if ptrace.ascii_ok(t)]
    texts += [layout.render(t, "random", rnd) for t in rnd.sample(progs, 200 if tier == "quick" else 3000)]
    traces = []
    for t in texts:
        tr, ast, exc = ptrace.record(t, "main.c")
        traces.append(tr)
    acc, res = ptrace.validate(traces, "error locations", R=64)
    ctx.add_tlc(res, "ParserTrace on illegal-character injections")
    nrej = 0
    for i, tr in enumerate(traces, 1):
        if i not in acc:
            nrej += 1
            why = ptrace.explain(tr, R=64) if nrej <= 3 else "(not diagnosed)"
            ctx.fail("error-location trace rejected: %s" % why, dict(kind="errloc", text=tr["text"]))
    ctx.count(len(traces), nontrivial=len(traces), traces=len(traces))
    ctx.note("population_illegal_character_injections", len(traces))
    if names:
        ctx.sample(dict(laid_out_program=names[0][:400]))
    if texts:
        ctx.sample(dict(injected=texts[0][:300]))
    ctx.assumptions += ["token (line, column, file) are those the lexer reports; they are bound to the raw text by CLex0 in "
                        "ParserTrace / C09", "CompoundLiteral-free node kinds without END obligation (NamedInitializer, "
                        "InitList, EllipsisParam, IdentifierType) are not coordinate-checked: the property lists declarations, "
                        "statements, identifiers, constants and operators"]
    return ctx.finish()


def replay(path):
    r = json.load(open(path))["replay"]
    if r["kind"] == "errloc":
        tr, ast, exc = ptrace.record(r["text"], "main.c")
        acc, _ = ptrace.validate([tr], "replay", R=64, workers=1)
        if 1 not in acc:
            print("VIOLATION property=C11 replay=%s" % path)
            print("  what:", ptrace.explain(tr, R=64))
            return 1
        return 0
    tk, ast, exc = matcher.parse_with_tokens(r["text"], "main.c")
    if ast is None:
        return 0
    c = matcher.case_of(tk, ast)
    acc, coords, _ = matcher.validate([c], "replay", check_coords=True, workers=1)
    if 1 not in acc or coords.get(1):
        print("VIOLATION property=C11 replay=%s" % path)
        print("  what: bad coordinates", sorted(coords.get(1, []))[:5], "" if 1 in acc else matcher.explain(c))
        return 1
    return 0
