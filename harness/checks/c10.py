"""C10: literals are accepted iff well-formed and classified by their spelling.

TLC enumerates every string over three literal-focused alphabets up to a length bound, and every
combination of literal building blocks (prefix x digits x suffix, prefix x quote x c-chars x
quote); spec/CLex.tla (on spec/CLiterals.tla = C99 6.4.4/6.4.5 + named extensions) decides for
each text the token list, whether an error must be reported and - when the text is exactly one
literal - the Constant.type its spelling implies.  The real CLexer must agree, and the real
CParser must build Constant(type, value) with that type and the spelling unchanged.
"""
import json
import random

from .. import common
from ..common import Ctx
from . import c09
from ..lexrun import lex_trace, compare_with_spec

INT_A = ["0", "1", "7", "8", "x", "b", "u", "l", "L", "a"]
FLT_A = ["0", "1", ".", "e", "p", "+", "-", "f", "x", "a", "L"]
CHR_A = ["'", '"', "\\", "a", "n", "x", "0", "8", "L", "u", "(", "\n"]

INT_SHAPE = [["", "0", "0x", "0X", "0b", "1", "9"], ["", "0", "7", "8", "19", "a", "F", "1"], ["", "0", "9", "f"],
             ["", "u", "U", "l", "L", "ll", "LL", "ul", "lu", "uL", "Lu", "ull", "llu", "LLU", "ULL", "lL", "uu", "lul", "f"]]
FLT_SHAPE = [["", "0x", "0X"], ["", "0", "12", "a", "08"], ["", "."], ["", "0", "5", "f1"], ["", "e", "E", "p", "P"],
             ["", "+", "-"], ["", "0", "10"], ["", "f", "F", "l", "L", "u", "ff"]]
CCHARS = ["a", "0", "\\n", "\\'", '\\"', "\\\\", "\\0", "\\101", "\\x41", "\\x", "\\8", "\\q", "\\(", "\\ ", '"', "", "\n", "??"]
CHR_SHAPE = [["", "L", "u8", "u", "U", "x"], ["'"], CCHARS, CCHARS, ["", "a"], ["'", ""]]
SCHARS = ["a", " ", "\\n", '\\"', "\\\\", "\\0", "\\x4", "\\q", "\\(", "\\%", "'", "", "\n", "\\"]
STR_SHAPE = [["", "L", "u8", "u", "U", "x"], ['"'], SCHARS, SCHARS, SCHARS, ['"', ""]]


# where a literal can stand: (template, how to reach the Constant).  The classification of a literal must not depend
# on the syntactic position it is used in.
def _ctx_table():
    return [
        ("int x = %s;", lambda a: a.ext[0].init),
        ("int a[%s];", lambda a: a.ext[0].type.dim),
        ("void f(void) { %s; }", lambda a: a.ext[0].body.block_items[0]),
        ("void f(void) { for (; %s; ) ; }", lambda a: a.ext[0].body.block_items[0].cond),
        ("void f(void) { L: %s; }", lambda a: a.ext[0].body.block_items[0].stmt),
        ("void f(void) { switch (0) { case 1: %s; } }", lambda a: a.ext[0].body.block_items[0].stmt.block_items[0].stmts[0]),
        ("void f(void) { g(%s, 0); }", lambda a: a.ext[0].body.block_items[0].args.exprs[0]),
        ("void f(void) { return %s; }", lambda a: a.ext[0].body.block_items[0].expr),
        ("int v = sizeof(int[%s]);", lambda a: a.ext[0].init.expr.type.dim),
        ("struct S { int m : %s; };", lambda a: a.ext[0].type.decls[0].bitsize),
        ("int y[] = { [%s] = 0 };", lambda a: a.ext[0].init.exprs[0].name[0]),
        ("int v = sizeof((char[sizeof(%s)]){0});", lambda a: a.ext[0].init.expr.type.type.dim.expr),
        ("int v = ((char[sizeof %s]){0})[0];", lambda a: a.ext[0].init.name.type.type.dim.expr),
    ]


def _const_check(exp, all_contexts=False):
    """For single-literal texts: Constant.type / Constant.value built by the parser."""
    from pycparser import c_parser, c_ast
    lit = exp["text"]
    table = _ctx_table()
    for tmpl, get in (table if all_contexts else table[:1]):
        src = tmpl % lit
        try:
            ast = c_parser.CParser().parse(src, "l.c")
        except Exception as e:
            return "literal %r rejected by the parser in %r: %s: %s" % (lit, tmpl, type(e).__name__, str(e)[:80])
        try:
            c = get(ast)
        except Exception as e:
            return "literal %r in %r: no Constant where the context puts it (%s)" % (lit, tmpl, type(e).__name__)
        if not isinstance(c, c_ast.Constant):
            return "literal %r did not become a Constant in %r (%s)" % (lit, tmpl, type(c).__name__)
        if c.value != lit:
            return "Constant.value %r differs from the spelling %r (in %r)" % (c.value, lit, tmpl)
        if c.type != exp["ctype"]:
            return "Constant.type %r, spelling %r implies %r (in %r)" % (c.type, lit, exp["ctype"], tmpl)
    if all_contexts and lit.startswith('"'):
        # adjacent string literals are one constant whose value is their concatenation - also where the parser reads
        # them twice (the type name of a compound literal is parsed speculatively, then again)
        want = lit[:-1] + 'cd"'
        for tmpl, get in (("char *p = %s \"cd\";", lambda a: a.ext[0].init),
                          ("int v = sizeof((char[sizeof(%s \"cd\")]){0});", lambda a: a.ext[0].init.expr.type.type.dim.expr),
                          ("int v = ((char[sizeof %s \"cd\"]){0})[0];", lambda a: a.ext[0].init.name.type.type.dim.expr)):
            src = tmpl % lit
            try:
                c = get(c_parser.CParser().parse(src, "l.c"))
            except Exception as e:
                return "adjacent literals %r \"cd\" in %r: %s: %s" % (lit, tmpl, type(e).__name__, str(e)[:80])
            if not isinstance(c, c_ast.Constant) or c.value != want:
                return "adjacent literals %r \"cd\" in %r give %r, their concatenation is %r" % (
                    lit, tmpl, getattr(c, "value", type(c).__name__), want)
    return None


def _work(chunk):
    out = []
    nlit = 0
    for exp in chunk:
        got = lex_trace(exp["text"], "f.c", c09.TYPES)
        d = compare_with_spec(exp, got)
        if d:
            out.append((exp, "lex text=%r :: %s" % (exp["text"], d)))
        if exp.get("ctype"):
            nlit += 1
            # every context for one literal in eight (chosen by the spelling, deterministically), the initializer for all
            import zlib
            d = _const_check(exp, all_contexts=zlib.crc32(exp["text"].encode()) % 8 == 0)
            if d:
                out.append((exp, "const :: " + d))
    return len(chunk), nlit, out


def run_shape(ctx, label, shape, sample=None, rnd=None):
    from ..common import tlc, tlc_ok, mc_module, workdir, rmtree, pmap
    wd = workdir("c10")
    try:
        path, sub = mc_module(wd, "CLex", dict(Shape=[set(s) for s in shape], Types=c09.TYPES))
        exports = []
        res = tlc(path, sub + "INIT Init\nNEXT Next\n" + c09.INVS, wd=wd, on_export=exports.append, timeout=3000, xss="256m")
        tlc_ok(res, "CLex " + label)
        if res.violated:
            raise common.MachineryError("CLex %s: spec invariant %s violated" % (label, res.violated))
        ctx.add_tlc(res, label)
    finally:
        rmtree(wd)
    seen, uniq = set(), []
    for e in exports:
        if e["text"] not in seen:
            seen.add(e["text"])
            uniq.append(e)
    uniq.sort(key=lambda e: e["text"])
    if sample and len(uniq) > sample:
        uniq = rnd.sample(uniq, sample)
    chunks = [uniq[i:i + 500] for i in range(0, len(uniq), 500)]
    n = nlit = 0
    for cnt, nl, fails in pmap(_work, chunks, chunk=1):
        n += cnt
        nlit += nl
        for exp, d in fails:
            ctx.fail(d, dict(kind="lit", exp=exp))
    ctx.count(n, nontrivial=n, traces=n)
    nerr = sum(1 for e in uniq if e["phase"] == "err")
    ctx.note("population_" + label, dict(texts=n, single_literals_checked_in_parser=nlit, spec_expects_error=nerr))
    lits = [e for e in uniq if e.get("ctype")]
    if lits:
        e = lits[len(lits) // 2]
        ctx.sample(dict(text=e["text"], cls=e["out"][0]["ty"], constant_type=e["ctype"]))
    errs = [e for e in uniq if e["phase"] == "err"]
    if errs:
        e = errs[len(errs) // 2]
        ctx.sample(dict(text=e["text"], error_expected_at=e["err"]))


def run(tier):
    ctx = Ctx("C10", tier, "model_checking")
    rnd = random.Random(ctx.seed)
    ctx.cov["rule"] = ("every string over the integer / floating / quote alphabets up to the length bound and every "
                       "combination of literal building blocks; expected class, error and Constant.type from "
                       "spec/CLiterals.tla; a case is a distinct text")
    if tier == "quick":
        run_shape(ctx, "integer alphabet len<=5", [INT_A] * 5, sample=60000, rnd=rnd)
        run_shape(ctx, "floating alphabet len<=4", [FLT_A] * 4)
        run_shape(ctx, "quote alphabet len<=4", [CHR_A] * 4)
    else:
        run_shape(ctx, "integer alphabet len<=6", [INT_A] * 6)
        run_shape(ctx, "floating alphabet len<=5", [FLT_A] * 5)
        run_shape(ctx, "quote alphabet len<=5", [CHR_A] * 5)
    run_shape(ctx, "integer blocks", INT_SHAPE)
    run_shape(ctx, "floating blocks", FLT_SHAPE, sample=40000 if tier == "quick" else None, rnd=rnd)
    run_shape(ctx, "character blocks", CHR_SHAPE, sample=30000 if tier == "quick" else None, rnd=rnd)
    run_shape(ctx, "string blocks", STR_SHAPE, sample=30000 if tier == "quick" else None, rnd=rnd)
    ctx.cov["exhaustive"] = tier == "thorough"
    ctx.assumptions += ["spec/CLiterals.tla is C99 6.4.4/6.4.5 plus the named extensions (binary integers, u8/u/U, '$', "
                        "lenient escapes, multi-character constants)"]
    return ctx.finish()


def replay(path):
    r = json.load(open(path))["replay"]
    n, nl, out = _work([r["exp"]])
    for e, d in out:
        print("VIOLATION property=C10 replay=%s" % path)
        print("  what:", d)
    return 1 if out else 0
