"""C02: expression ASTs follow C precedence, associativity and binding.

spec -> code: TLC enumerates every derivation of spec/CExpr.tla within MaxOps; each complete
state (tokens, expected AST) is rendered into the 8 expression contexts of the property and
pushed through CParser; the projected subtree must equal the state's AST.
"""
import json
import random

from .. import common
from ..common import Ctx, tlc, tlc_ok, pmap
from ..proj import proj, strip, diff

# context -> (template, minimal level the slot's nonterminal admits, extractor)
CONTEXTS = {
    "initializer": ("int x = %s;", 2, lambda a: a.ext[0].init),
    "statement": ("void f(void){ %s; }", 1, lambda a: a.ext[0].body.block_items[0]),
    "condition": ("void f(void){ if (%s) ; }", 1, lambda a: a.ext[0].body.block_items[0].cond),
    "argument": ("void f(void){ g(%s); }", 2, lambda a: a.ext[0].body.block_items[0].args.exprs[0]),
    "array_bound": ("int a[%s];", 2, lambda a: a.ext[0].type.dim),
    "case_label": ("void f(void){ switch (0) { case %s: ; } }", 3,
                   lambda a: a.ext[0].body.block_items[0].stmt.block_items[0].expr),
    "bit_width": ("struct S { int m : %s; };", 3, lambda a: a.ext[0].type.decls[0].bitsize),
    "enum_value": ("enum En { A = %s };", 3, lambda a: a.ext[0].type.values.enumerators[0].value),
    "labelled": ("void f(void){ L: %s; }", 1, lambda a: a.ext[0].body.block_items[0].stmt),
    "case_statement": ("void f(void){ switch (0) { case 1: %s; } }", 1,
                       lambda a: a.ext[0].body.block_items[0].stmt.block_items[0].stmts[0]),
    # round 7: unusual host constructs (6.7.8 designators, 6.7.10, 6.8.6.4, 6.8.5.3, 6.5.3.4, 6.7.5, 6.7.5.2)
    "designator": ("int a[] = { [%s] = 1 };", 3, lambda a: a.ext[0].init.exprs[0].name[0]),
    "static_assert": ("_Static_assert(%s, \"m\");", 3, lambda a: a.ext[0].cond),
    "return": ("int f(void){ return %s; }", 1, lambda a: a.ext[0].body.block_items[0].expr),
    "for_step": ("void f(void){ for (;;%s) ; }", 1, lambda a: a.ext[0].body.block_items[0].next),
    "sizeof_operand": ("int x = sizeof %s;", 15, lambda a: a.ext[0].init.expr),
    "alignas": ("_Alignas(%s) int x;", 3, lambda a: a.ext[0].align[0].alignment),
    "static_bound": ("void f(int n, int a[static %s]);", 2, lambda a: a.ext[0].type.args.params[1].type.dim),
    "member_bound": ("struct S { int k; int a[%s]; };", 2, lambda a: a.ext[0].type.decls[1].type.dim),
    "init_list_item": ("int a[] = { 0, %s, 2 };", 2, lambda a: a.ext[0].init.exprs[1]),
}


HOSTS = ["designator", "static_assert", "return", "for_step", "sizeof_operand", "alignas", "static_bound",
         "member_bound", "init_list_item"]
BASE = [c for c in CONTEXTS if c not in HOSTS]


def cfg_text(maxops, modes, concrete, export=True, inv=True, binonly=False):
    return ("CONSTANTS MaxOps = %d\nModes = {%s}\nConcrete = %s\nBinOnly = %s\nINIT Init\nNEXT Next\n" % (
        maxops, ",".join('"%s"' % m for m in modes), "TRUE" if concrete else "FALSE", "TRUE" if binonly else "FALSE")
        + ("INVARIANT ShapeOK\nINVARIANT Balanced\n" if inv else "")
        + ("INVARIANT Export\n" if export else "") + "CHECK_DEADLOCK FALSE\n")


def render(toks, rl, level):
    s = " ".join(toks)
    return "(" + s + ")" if rl < level else s


def literalise(toks, ast):
    """The same derivation with its FIRST leaf spelled as a constant (v1 -> 7): statements that begin with a literal."""
    def sub(v):
        if isinstance(v, dict):
            if v.get("k") == "ID" and v.get("name") == "v1":
                return {"k": "Constant", "type": "int", "value": "7"}
            return {k: sub(x) for k, x in v.items()}
        if isinstance(v, list):
            return [sub(x) for x in v]
        return v
    return ["7" if t == "v1" else t for t in toks], sub(ast)


def check_one(case, ctxnames=None):
    """Returns list of (ctx, signature, detail) failures for one exported state."""
    from pycparser import c_parser
    out = []
    exp0 = strip(case["ast"])
    if ctxnames is None:   # the ten base contexts always, three of the nine host contexts per case (rotating)
        k = sum(len(t) for t in case["toks"]) + len(case["toks"])
        ctxnames = BASE + [HOSTS[(k + j * 3) % len(HOSTS)] for j in range(3)]
    runs = [(c, case["toks"], exp0) for c in ctxnames]
    if case["toks"] and case["toks"][0] in ("v1", "(") and "v1" in case["toks"]:
        lt, la = literalise(case["toks"], exp0)
        runs += [(c, lt, la) for c in ctxnames if c in ("labelled", "case_statement", "statement")]
    for cname, toks, exp in runs:
        tmpl, lvl, get = CONTEXTS[cname]
        src = tmpl % render(toks, case["rl"], lvl)
        try:
            ast = c_parser.CParser().parse(src, "e.c")
        except Exception as e:  # rejection of a derivable expression
            msg = str(e)
            out.append((cname, "reject ctx=%s exc=%s msg=%s src=%s" % (
                cname, type(e).__name__, msg.split(": ", 1)[-1][:60], src), src))
            continue
        try:
            got = proj(get(ast))
        except Exception as e:
            out.append((cname, "shape ctx=%s %s src=%s" % (cname, type(e).__name__, src), src))
            continue
        d = diff(exp, got)
        if d:
            out.append((cname, "tree ctx=%s diff=%s src=%s" % (cname, d, src), src))
    return out


def _work(chunk):
    res = []
    for case in chunk:
        f = check_one(case)
        if f:
            res.append((case, f))
    return len(chunk), res


def replay_population(ctx, exports, label):
    chunks = [exports[i:i + 200] for i in range(0, len(exports), 200)]
    n = 0
    for cnt, fails in pmap(_work, chunks, chunk=1):
        n += cnt
        for case, fl in fails:
            for cname, sig, src in fl:
                ctx.fail(sig, dict(kind="expr", case=case, ctx=cname, src=src))
    ctx.count(n * (len(BASE) + 3), nontrivial=n, traces=n * (len(BASE) + 3))
    ctx.note("population_" + label, n)


def run(tier):
    ctx = Ctx("C02", tier, "model_checking")
    ctx.cov["rule"] = ("every complete derivation of spec/CExpr.tla (C99 6.5 level table) within MaxOps "
                       "operator nodes, each in 13 of %d expression contexts (10 always, 3 of 9 host constructs rotating); a case is one (tree, parenthesisation "
                       "mode); distinct_nontrivial counts distinct exported trees") % len(CONTEXTS)
    rnd = random.Random(ctx.seed)
    plans = []
    if tier == "quick":
        plans.append(("ops<=2 concrete min/full/red", dict(maxops=2, modes=["min", "full", "red"], concrete=True), None))
        plans.append(("ops<=3 class representatives min (sample 20000)", dict(maxops=3, modes=["min"], concrete=False), 20000))
        plans.append(("flat chains: binary operators only (one per level), ops<=4, every tree shape (sample 40000)",
                      dict(maxops=4, modes=["min"], concrete=False, binonly=True), 40000))
    else:
        plans.append(("ops<=2 concrete red", dict(maxops=2, modes=["red"], concrete=True), None))
        plans.append(("ops<=3 concrete min", dict(maxops=3, modes=["min"], concrete=True), None))
        plans.append(("ops<=3 concrete full", dict(maxops=3, modes=["full"], concrete=True), None))
        plans.append(("flat chains: binary operators only (one per level), ops<=5, every tree shape",
                      dict(maxops=5, modes=["min"], concrete=False, binonly=True), 400000))
    for label, kw, sample in plans:
        exports = []
        res = tlc("CExpr", cfg_text(**kw), on_export=exports.append, timeout=1800)
        tlc_ok(res, "CExpr " + label)
        ctx.add_tlc(res, label)
        if not exports:
            raise common.MachineryError("CExpr exported nothing for " + label)
        exports.sort(key=lambda e: (e["mode"], " ".join(e["toks"])))      # TLC workers print in no particular order
        if sample and len(exports) > sample:
            exports = rnd.sample(exports, sample)
        for e in exports[len(exports) // 2: len(exports) // 2 + 2]:
            ctx.sample(dict(tokens=" ".join(e["toks"]), expected=strip(e["ast"]), mode=e["mode"]))
        replay_population(ctx, exports, label)
    # random deeper trees
    nsim = 3000 if tier == "quick" else 60000
    exports = []
    res = tlc("CExpr", cfg_text(5, ["min", "red"], True, inv=False), simulate=nsim, depth=120,
              seed=ctx.seed + 1, on_export=exports.append, timeout=1800, workers=8)
    tlc_ok(res, "CExpr simulate")
    ctx.add_tlc(res, "simulate ops<=5 depth 120")
    seen = set()
    uniq = []
    for e in exports:
        k = " ".join(e["toks"])
        if k not in seen:
            seen.add(k)
            uniq.append(e)
    replay_population(ctx, uniq, "simulated ops<=5")
    from .. import longunit
    from .c16 import LISTS
    kinds = ["args", "init_items"]
    jobs = longunit.list_jobs(kinds, {k: LISTS[k][2] for k in kinds}, rnd, 8 if tier == "quick" else 80)
    nl = 0
    for cnt, bad in pmap(longunit.check_list, jobs, chunk=4):
        nl += cnt
        for sig, text in bad:
            ctx.fail("long list: " + sig, dict(kind="list", text=text))
    ctx.count(len(jobs), nontrivial=len(jobs), traces=nl)
    ctx.note("long_lists", dict(lists=len(jobs), items=nl))
    ctx.cov["exhaustive"] = True
    ctx.note("exhaustive_scope", "all trees within the MaxOps bounds listed in tlc_runs; simulation beyond")
    ctx.assumptions += ["the level table in spec/CExpr.tla is C99 6.5 (independent of the parser)",
                        "leaves are numbered identifiers/constants so operand order is observable"]
    return ctx.finish()


def replay(path):
    r = json.load(open(path))["replay"]
    if r.get("kind") == "list":
        print("replay: a long list (text in the file); the comparison with its items parsed alone is made by re-running the check")
        return 0
    f = check_one(r["case"], [r["ctx"]])
    for cname, sig, src in f:
        print("VIOLATION property=C02 replay=%s" % path)
        print("  what:", sig)
    return 1 if f else 0
