"""C06: parse() either returns a FileAST or raises ParseError - nothing else.

TLC (spec/TokSeq.tla) enumerates every token sequence up to a length bound over an alphabet
covering every keyword class, punctuator and literal kind, in six context prefixes and inside
twelve constructs (between declarator and body, between members, ...); spec/CLex.tla
supplies raw character noise; every case goes through CParser.parse and the outcome must be one
of Session.ParseEnd's shapes: FileAST | ParseError("file:line:col: " | "file: ") with the
location on a real token (| RecursionError).  A sample of the cases is also validated event by
event against spec/ParserTrace.tla (SingleErrorChannel, FreshStart, ...).
"""
import json
import random

from .. import common
from ..common import Ctx, tlc, tlc_ok, pmap, mc_module, workdir, rmtree
from ..outcome import classify
from .. import ptrace

CONTEXTS = [([], []),
            (["typedef", "int", "T", ";"], []),
            (["void", "f", "(", "void", ")", "{"], ["}"]),
            (["struct", "S", "{"], ["}", ";"]),
            (["int", "a", "[", "]", "=", "{"], ["}", ";"]),
            (["void", "g", "("], [")", ";"])]

# contexts in which the sequence stands between two parts of ONE construct (declarator and body of a function
# definition, members of a struct, controlling expression and else, ...): what the parser has already built is
# inspected again when the construct is completed
DEFCTX = [(["int", "f", "(", "int", "a", ")"], ["{", "}"]),
          (["int", "f", "(", "int", "a", ",", "...", ")"], ["{", "}"]),
          (["int", "f", "(", "a", ")"], ["{", "}"]),
          (["int", "f", "(", ")"], ["{", "}"]),
          (["f", "(", "a", ",", "b", ")"], ["{", "return", "a", ";", "}"]),
          (["struct", "S", "{", "int", "a", ";"], ["}", "x", ";"]),
          (["enum", "E", "{", "A"], ["}", ";"]),
          (["void", "f", "(", "void", ")", "{", "switch", "(", "x", ")", "{"], ["}", "}"]),
          (["void", "f", "(", "void", ")", "{", "for", "("], [")", ";", "}"]),
          (["int", "x", "=", "(", "int", ")"], [";"]),
          (["void", "f", "(", "void", ")", "{", "if", "(", "x", ")"], ["else", ";", "}"]),
          (["typedef", "int", "T", ";", "void", "f", "(", "T"], [")", "{", "}"])]
# contexts that COMPLETE a specifier / type-name sequence (what has been collected is only examined once the
# declaration, member or type name is finished)
SPECCTX = [(["int", "y", "=", "("], [")", "1", ";"]),
           (["int", "y", "=", "sizeof", "("], [")", ";"]),
           (["struct", "S", "{"], ["x", ";", "}", ";"]),
           (["struct", "S", "{"], ["x", ":", "1", ";", "}", ";"]),
           (["void", "f", "("], ["x", ")", ";"]),
           ([], ["x", ";"]),
           (["_Alignas", "("], [")", "int", "x", ";"]),
           (["int", "y", "=", "("], [")", "{", "1", "}", ";"]),
           (["void", "f", "(", "void", ")", "{", "for", "("], ["x", "=", "1", ";", ";", ")", ";", "}"]),
           (["typedef"], ["x", ";"])]
CONTEXT_SETS = None   # filled below

FOREIGN = ["@", "`", "\\", "/*", "//", "\n#define X 1\n", "\n#if 1\n", "\n#include <a.h>\n"]
CORE = ["typedef", "static", "const", "inline", "int", "void", "unsigned", "T", "x", "struct", "enum", "_Atomic",
        "_Alignas", "_Static_assert", "sizeof", "if", "else", "for", "while", "do", "switch", "case", "default",
        "return", "goto", "break", "_Pragma", "offsetof", "_Alignof",
        "(", ")", "[", "]", "{", "}", ";", ",", ":", "=", "*", "&", "+", "++", ".", "->", "?", "...", "<", "!", "^=",
        "1", "1.5", "'c'", "'ab'", "\"s\"", "L\"w\"", "#", "\n#pragma p\n"]
REST = ["auto", "register", "extern", "_Thread_local", "_Noreturn", "restrict", "volatile", "char", "short", "long",
        "float", "double", "signed", "_Bool", "_Complex", "__int128", "union", "continue",
        "-", "--", "/", "%", "|", "~", "^", ">", "<<", ">>", "<=", ">=", "==", "!=", "&&", "||", "*=", "/=", "%=", "+=",
        "-=", "<<=", ">>=", "&=", "|=", "0x1F", "0b1", "017", "1u", "1.f", "0x1p3", "L'a'", "u8\"x\"", "u'a'", "U\"x\""]
SMALL = ["int", "T", "x", "(", ")", "{", "}", "[", "]", ";", ",", "*", "=", "1", "struct", "typedef"]
SPECS = ["_Alignas", "_Atomic", "(", ")", "int", "1", ";", "x", "const", ":"]
SPECS2 = ["_Atomic", "(", ")", "int", "T", "struct", "enum", "const", "*", "long"]


def token_mutants(toks, alphabet, rnd, k):
    """k random token-level mutants (delete / insert / replace / swap / duplicate / truncate, one or two at once)."""
    out = []
    n = len(toks)
    for _ in range(k):
        t = list(toks)
        for _ in range(rnd.choice([1, 1, 2])):
            if not t:
                break
            i = rnd.randrange(len(t))
            op = rnd.choice(["del", "ins", "rep", "swap", "dup", "trunc"])
            if op == "del":
                del t[i]
            elif op == "ins":
                t.insert(i, rnd.choice(alphabet))
            elif op == "rep":
                t[i] = rnd.choice(alphabet)
            elif op == "swap" and i + 1 < len(t):
                t[i], t[i + 1] = t[i + 1], t[i]
            elif op == "dup":
                t.insert(i, t[i])
            elif op == "trunc":
                t = t[:i]
        out.append(" ".join(t))
    return out


def _mut_work(args):
    toks, seed = args
    rnd = random.Random(seed)
    bad = []
    n = 0
    for src in token_mutants(toks, CORE + REST, rnd, 24):
        n += 1
        k, detail = classify(src, "f.c", check_loc="#" not in src)
        if k.startswith("bad") and not (k == "bad:location-prefix" and "#" in src):
            bad.append((src, k, detail))
    return n, bad


CONTEXT_SETS = [CONTEXTS, DEFCTX, SPECCTX]


def _unit_mut_work(args):
    toks, seed = args
    rnd = random.Random(seed)
    bad = []
    n = 0
    for src in [" ".join(toks)] + token_mutants(toks, CORE, rnd, 3):
        n += 1
        k, detail = classify(src, "f.c", check_loc=False)
        if k.startswith("bad") and k != "bad:location-prefix":
            bad.append((src, k, detail))
    return n, bad


def text_of(seq, c, cs=0):
    pre, post = CONTEXT_SETS[cs][c]
    return " ".join(pre + seq + post)


def _work(chunk):
    bad = []
    n = 0
    kinds = {"ok": 0, "ParseError": 0, "RecursionError": 0}
    accepted_must = []
    for case in chunk:
        cs = case.get("cs", 0)
        for c in range(len(CONTEXT_SETS[cs])):
            src = text_of(case["seq"], c, cs)
            k, detail = classify(src, "f.c", check_loc=True)
            n += 1
            if k.startswith("bad"):
                bad.append((src, k, detail))
            else:
                kinds[k] += 1
                if k == "ok" and case["must"][c]:
                    accepted_must.append(src)
    return n, kinds, bad, accepted_must


def enumerate_seqs(ctx, label, alphabet, maxlen, cs=0):
    wd = workdir("c06")
    try:
        path, sub = mc_module(wd, "TokSeq", dict(
            Alphabet=set(alphabet), Foreign=set(FOREIGN) & set(alphabet),
            Contexts=[[pre, post] for pre, post in CONTEXT_SETS[cs]], MaxLen=maxlen))
        exports = []
        res = tlc(path, sub + "INIT Init\nNEXT Next\nINVARIANT OracleSane\nINVARIANT Export\nCHECK_DEADLOCK FALSE\n",
                  wd=wd, on_export=exports.append, timeout=3000)
        tlc_ok(res, "TokSeq " + label)
        if res.violated:
            raise common.MachineryError("TokSeq: %s violated" % res.violated)
        ctx.add_tlc(res, label)
        for e in exports:
            e["cs"] = cs
        exports.sort(key=lambda e: e["seq"])
        return exports
    finally:
        rmtree(wd)


def sig_of(kind, detail, src):
    return "outcome %s :: %s :: src=%s" % (kind, detail, src[:200])


def run_population(ctx, exports, label, prop="C06"):
    chunks = [exports[i:i + 400] for i in range(0, len(exports), 400)]
    tot = 0
    kinds = {"ok": 0, "ParseError": 0, "RecursionError": 0}
    must_ok = []
    for n, ks, bad, am in pmap(_work, chunks, chunk=1):
        tot += n
        for k in ks:
            kinds[k] += ks[k]
        must_ok += am
        if prop == "C06":
            for src, k, detail in bad:
                ctx.fail(sig_of(k, detail, src), dict(kind="text", text=src))
    if prop == "C18":
        for src in must_ok:
            ctx.fail("accepted although unbalanced / foreign: %s" % src[:200], dict(kind="text", text=src))
    ctx.count(tot, nontrivial=len(exports), traces=tot)
    ctx.note("population_" + label, dict(sequences=len(exports), parses=tot, outcomes=kinds))
    return kinds


def noise_population(ctx, tier):
    """Raw character noise: every string over the CLex alphabet up to length 4 (5)."""
    from .c09 import ALPHA20
    import itertools
    L = 3 if tier == "quick" else 4
    texts = ["".join(t) for n in range(1, L + 1) for t in itertools.product(ALPHA20, repeat=n)]
    more = ["int x = " + t + ";" for t in texts if len(t) <= (2 if tier == "quick" else 3)]
    # the same noise at the end of directive lines (the free-form text of #pragma, the tail of a line directive), with
    # and without the rest of a program after it
    short = [t for t in texts if len(t) <= (2 if tier == "quick" else 3)]
    more += [pre + t + post for t in short for pre in ("#pragma p ", "#pragma ", "# 3 \"f.h\" ", "#line 3 ", "_Pragma(\"p") for post in ("", "\nint y;")]
    return texts + more


def _noise_work(chunk):
    bad = []
    for src in chunk:
        k, detail = classify(src, "f.c", check_loc="#" not in src)
        if k.startswith("bad") and not (k == "bad:location-prefix" and "#" in src):
            bad.append((src, k, detail))
    return len(chunk), bad


def run(tier):
    ctx = Ctx("C06", tier, "model_checking")
    rnd = random.Random(ctx.seed)
    ctx.cov["rule"] = ("token sequences enumerated by TLC (spec/TokSeq.tla) x 6 context prefixes, plus raw character noise; "
                       "each case is one parse whose outcome must be FileAST or ParseError with a 'file[:line:col]: ' prefix "
                       "that designates a token; distinct_nontrivial counts distinct sequences")
    if tier == "quick":
        seqs = enumerate_seqs(ctx, "len<=2 over %d tokens" % len(CORE + FOREIGN + REST), CORE + FOREIGN + REST, 2)
        run_population(ctx, seqs, "len<=2 full alphabet")
        seqs = enumerate_seqs(ctx, "len<=3 over %d core tokens" % len(CORE), CORE, 3)
        seqs = rnd.sample(seqs, 60000)
        run_population(ctx, seqs, "len<=3 core alphabet (sample 60000)")
        seqs = enumerate_seqs(ctx, "len<=4 over %d small tokens" % len(SMALL), SMALL, 4)
        run_population(ctx, seqs, "len<=4 small alphabet")
        sq = enumerate_seqs(ctx, "len<=5 over %d specifier tokens" % len(SPECS), SPECS, 5)
        run_population(ctx, sq, "len<=5 specifier alphabet")
        sq = enumerate_seqs(ctx, "len<=4 over %d small tokens inside %d constructs" % (len(SMALL), len(DEFCTX)), SMALL, 4, cs=1)
        run_population(ctx, sq, "len<=4 small alphabet inside constructs")
        sq = enumerate_seqs(ctx, "len<=5 over %d specifier tokens in %d completing contexts" % (len(SPECS2), len(SPECCTX)), SPECS2, 5, cs=2)
        run_population(ctx, sq, "len<=5 specifier alphabet, completed")
    else:
        sq = enumerate_seqs(ctx, "len<=6 over %d specifier tokens in %d completing contexts" % (len(SPECS2), len(SPECCTX)), SPECS2, 6, cs=2)
        run_population(ctx, sq, "len<=6 specifier alphabet, completed")
        sq = enumerate_seqs(ctx, "len<=5 over %d small tokens inside %d constructs" % (len(SMALL), len(DEFCTX)), SMALL, 5, cs=1)
        run_population(ctx, sq, "len<=5 small alphabet inside constructs")
        sq = enumerate_seqs(ctx, "len<=3 over %d core tokens inside %d constructs" % (len(CORE), len(DEFCTX)), CORE, 3, cs=1)
        run_population(ctx, sq, "len<=3 core alphabet inside constructs")
        sq = enumerate_seqs(ctx, "len<=5 over %d specifier tokens" % len(SPECS), SPECS, 5)
        run_population(ctx, sq, "len<=5 specifier alphabet")
        seqs = enumerate_seqs(ctx, "len<=3 over %d tokens" % len(CORE + FOREIGN + REST), CORE + FOREIGN + REST, 3)
        run_population(ctx, seqs, "len<=3 full alphabet")
        seqs = enumerate_seqs(ctx, "len<=4 over %d tokens" % 30, CORE[:30], 4)
        run_population(ctx, seqs, "len<=4 over 30 tokens")
        seqs = enumerate_seqs(ctx, "len<=5 over %d small tokens" % len(SMALL), SMALL, 5)
        run_population(ctx, seqs, "len<=5 small alphabet")
    for s in seqs[len(seqs) // 2: len(seqs) // 2 + 2]:
        ctx.sample(dict(sequence=s["seq"], text_in_function_context=text_of(s["seq"], 2)))
    # token-level mutations of valid programs (derived by TLC from CGram.tla)
    from . import c01
    progs = [e["toks"] for e in c01.derive(ctx, "CGram fuel<=2 (mutation targets)", 2)]
    progs = rnd.sample(progs, 2500 if tier == "quick" else len(progs))
    n = 0
    for cnt, bad in pmap(_mut_work, [(t, rnd.randrange(1 << 30)) for t in progs], chunk=16):
        n += cnt
        for src, k, detail in bad:
            ctx.fail(sig_of(k, detail, src), dict(kind="text", text=src))
    ctx.count(n, nontrivial=len(progs), traces=n)
    ctx.note("population_token_mutants_of_valid_programs", dict(programs=len(progs), mutants=n))
    # long inputs (units of 20-250 derived programs) with one token-level mutation somewhere
    ujobs = []
    for _ in range(400 if tier == "quick" else 6000):
        parts = [rnd.choice(progs) for _ in range(rnd.randint(20, 250))]
        toks = [t for p in parts for t in p]
        ujobs.append((toks, rnd.randrange(1 << 30)))
    n = 0
    for cnt, bad in pmap(_unit_mut_work, ujobs, chunk=4):
        n += cnt
        for src, k, detail in bad:
            ctx.fail(sig_of(k, detail, src[-200:]), dict(kind="text", text=src))
    ctx.count(n, nontrivial=len(ujobs), traces=n)
    ctx.note("population_long_units_with_one_mutation", dict(units=len(ujobs), parses=n))
    # noise
    texts = noise_population(ctx, tier)
    chunks = [texts[i:i + 2000] for i in range(0, len(texts), 2000)]
    n = 0
    for cnt, bad in pmap(_noise_work, chunks, chunk=1):
        n += cnt
        for src, k, detail in bad:
            ctx.fail(sig_of(k, detail, src), dict(kind="text", text=src))
    ctx.count(n, nontrivial=n, traces=n)
    ctx.note("population_character_noise", n)
    # code -> spec on a sample: the whole event trace must be a behaviour of ParserTrace
    sample = rnd.sample(seqs, 400 if tier == "quick" else 4000)
    traces = []
    for s in sample:
        src = text_of(s["seq"], rnd.randrange(len(CONTEXTS)))
        if ptrace.ascii_ok(src):
            tr, ast, exc = ptrace.record(src, "f.c")
            traces.append(tr)
    acc, res = ptrace.validate(traces, "C06 sample", R=64)
    ctx.add_tlc(res, "ParserTrace on sampled sequences")
    nrej = 0
    for i, tr in enumerate(traces, 1):
        if i not in acc:
            nrej += 1
            why = ptrace.explain(tr, R=64) if nrej <= 5 else "(not diagnosed)"
            ctx.fail("trace of %r rejected by ParserTrace: %s" % (tr["text"][:100], why),
                     dict(kind="ptrace", text=tr["text"]))
    ctx.count(len(traces), traces=len(traces))
    ctx.cov["exhaustive"] = True
    ctx.assumptions += ["locations are compared with the token starts the real lexer reports (bound to the specification by C09)",
                        "RecursionError is tolerated (none arises at these sizes)"]
    return ctx.finish()


def replay(path):
    r = json.load(open(path))["replay"]
    k, detail = classify(r["text"], "f.c")
    if k.startswith("bad"):
        print("VIOLATION property=C06 replay=%s" % path)
        print("  what:", sig_of(k, detail, r["text"]))
        return 1
    if r.get("kind") == "ptrace":
        tr, ast, exc = ptrace.record(r["text"], "f.c")
        acc, _ = ptrace.validate([tr], "replay", R=64, workers=1)
        if 1 not in acc:
            print("VIOLATION property=C06 replay=%s" % path)
            print("  what:", ptrace.explain(tr, R=64))
            return 1
    return 0
