"""C09: tokenisation is lossless, longest-match and position-exact.

spec -> code: TLC runs the lexer cursor machine spec/CLex.tla over (a) every string up to a
length bound over a 20-character alphabet and (b) token/gap/token(...) layouts over the full
token vocabulary; each finished state carries the expected Token(type, value, line, column)
list, the expected final cursor, and - for malformed text - the offset range in which an
error must be reported.  The real CLexer is driven on the same text and compared.
code -> spec: recorded token() calls of the corpus are validated by spec/CLexTrace.tla.
"""
import json
import random

from .. import common
from ..common import Ctx, tlc, tlc_ok, pmap, mc_module, workdir, rmtree
from ..lexrun import lex_trace, compare_with_spec

ALPHA20 = ["i", "n", "t", "0", "1", ".", "+", "-", "<", ">", "=", "&", "|", "#", '"', "'", "\\", " ", "\t", "\n"]
TYPES = {"tt"}

PUNCT = ["...", "<<=", ">>=", "++", "--", "->", "&&", "||", "<<", ">>", "<=", ">=", "==", "!=", "*=", "/=", "%=",
         "+=", "-=", "&=", "|=", "^=", "=", "+", "-", "*", "/", "%", "|", "&", "~", "^", "!", "<", ">", "?", "(", ")",
         "[", "]", "{", "}", ",", ".", ";", ":"]
KEYWORDS = ["auto", "break", "case", "char", "const", "continue", "default", "do", "double", "else", "enum", "extern",
            "float", "for", "goto", "if", "inline", "int", "long", "register", "restrict", "return", "short", "signed",
            "sizeof", "static", "struct", "switch", "typedef", "union", "unsigned", "void", "volatile", "while",
            "_Bool", "_Complex", "_Noreturn", "_Thread_local", "_Static_assert", "_Atomic", "_Alignof", "_Alignas",
            "_Pragma", "__int128", "offsetof"]
LITERALS = ["1e5f", "2E-3L", "0x1p-1f", "0", "42", "017", "0x1F", "0b101", "42u", "42UL", "42ll", "7LLU", "1.5", ".5", "1.", "1e5", "1.5e-3f",
            "2.L", "0x1.8p3", "0x1p-2L", "0X.Ap1f", "'a'", "'\\n'", "'\\''", "'\\x41'", "'\\101'", "L'a'", "u8'a'",
            "u'a'", "U'a'", "'ab'", "'abcd'", '"s t"', '""', '"a\\"b"', 'L"w"', 'u8"x"', 'u"x"', 'U"x"',
            '"c:\\\\dir\\\\f.h"', '"\\q\\8"']
IDENTS = ["x", "a$b", "_i9", "tt", "intx", "L", "u8", "q" * 63, "q" * 64, "q" * 65]
# (kept below ~70 characters: the scanners of CLiterals.tla recurse once per character, and TLC's stack is finite)
LONGLITS = ["1" * 40, "0x" + "F" * 33, "\"" + "s" * 66 + "\"", "1." + "0" * 40 + "e10", "'" + "ab" + "'", "0" * 65]
VOCAB = PUNCT + KEYWORDS + LITERALS + IDENTS + LONGLITS
GAPS = ["", " ", "\t", "\n", " \n\t ", "    \n", "      \n     \n    ", "\n# 7 \"inc/f.h\"\n", "\n#line 12\n", "\n# 3 \"b.h\" 1 3 4\n",
        "\n#pragma omp x y\n", "\n#pragma\n", "\n  #  pragma  pack(1)\n", "\n#line 5 \"c:\\\\w\\\\p.h\"\n",
        # directives on consecutive lines
        "\n#pragma p q\n# 9 \"after.h\"\n", "\n#pragma\n#line 4\n", "\n# 2 \"a.h\"\n#pragma z\n", "\n# 2 \"a.h\"\n# 8 \"b.h\" 2\n",
        # a run of directives whose last one has no file name: the file named before it stays in force
        "\n# 10 \"inc.h\"\n#line 20\n", "\n#line 5 \"q.h\"\n# 9\n", "\n# 4 \"r.h\" 1\n# 6\n#line 8\n"]


# what may end a text: every gap, directive lines without their newline, and directive lines with text after
# the line number / file name / flags
TAILS = [g for g in GAPS if g] + ["\n#pragma omp x y", "\n#pragma once", "\n#pragma", "\n# 7 \"e.h\"", "\n#line 9",
                                  "\n# 3 \"f.c\" 1 @\n", "\n# 3 \"f.c\" x\n", "\n# 3 \"f.c\" 1 2 \"g\"\n",
                                  "\n#line 3 \"f.c\" /* c */\n", "\n# 3 \"f.c\" #define X\n", "\n# 3 @\n",
                                  "\n# 3 \"f.c\" 1.5\n", "\n#line 3 \"f.c\" )\n",
                                  "\n#pragma p \\", "\n#pragma p \\\n", "\n#pragma p \\\nq", "\n# 3 \"f.c\" \\"]


def _cmp(exp):
    got = lex_trace(exp["text"], "f.c", TYPES)
    d = compare_with_spec(exp, got)
    return None if d is None else (exp, d)


def _work(chunk):
    out = []
    for exp in chunk:
        r = _cmp(exp)
        if r:
            out.append(r)
    return len(chunk), out


INVS = ("PROPERTY Progress\nINVARIANT Lossless\nINVARIANT PositionExact\nINVARIANT LiteralsWellFormed\n"
        "INVARIANT Accounted\nINVARIANT Export\nCHECK_DEADLOCK FALSE\n")


def run_shape(ctx, label, shape, sample=None, rnd=None, invs=INVS):
    wd = workdir("c09")
    try:
        path, sub = mc_module(wd, "CLex", dict(Shape=[set(s) for s in shape], Types=TYPES))
        exports = []
        res = tlc(path, sub + "INIT Init\nNEXT Next\n" + invs, wd=wd, on_export=exports.append, timeout=3000, xss="256m")
        tlc_ok(res, "CLex " + label)
        if res.violated:
            raise common.MachineryError("CLex %s: spec invariant %s violated" % (label, res.violated))
        ctx.add_tlc(res, label)
    finally:
        rmtree(wd)
    seen = set()
    uniq = []
    for e in exports:
        if e["text"] not in seen:
            seen.add(e["text"])
            uniq.append(e)
    uniq.sort(key=lambda e: e["text"])
    if sample and len(uniq) > sample:
        uniq = rnd.sample(uniq, sample)
    nerr = sum(1 for e in uniq if e["phase"] == "err")
    chunks = [uniq[i:i + 500] for i in range(0, len(uniq), 500)]
    n = 0
    for cnt, fails in pmap(_work, chunks, chunk=1):
        n += cnt
        for exp, d in fails:
            ctx.fail("lex text=%r :: %s" % (exp["text"], d), dict(kind="lex", exp=exp))
    ctx.count(n, nontrivial=n, traces=n)
    ctx.note("population_" + label, dict(texts=n, spec_expects_error=nerr))
    for e in uniq[len(uniq) // 2: len(uniq) // 2 + 1]:
        ctx.sample(dict(text=e["text"], expected_tokens=[[t["ty"], t["val"], t["line"], t["col"]] for t in e["out"]],
                        expected_error_range=e["err"]))
    return uniq


def run(tier):
    ctx = Ctx("C09", tier, "model_checking")
    rnd = random.Random(ctx.seed)
    ctx.cov["rule"] = ("texts enumerated by TLC from spec/CLex.tla: every string over a 20-character alphabet up to the "
                       "length bound, and token/gap layouts over the full vocabulary (%d tokens, %d gaps incl. #line, "
                       "linemarkers, #pragma); a case is a distinct text; expected tokens, positions, final cursor "
                       "and error offset come from the spec" % (len(VOCAB), len(GAPS)))
    L = 4 if tier == "quick" else 5
    run_shape(ctx, "all strings len<=%d over 20 chars" % L, [ALPHA20] * L)
    gq = GAPS if tier == "thorough" else ["", " ", "\n"] + rnd.sample(GAPS[4:], 3)
    run_shape(ctx, "token gap token (full vocabulary, %d gaps)" % len(gq), [VOCAB, gq, VOCAB])
    sub = rnd.sample(VOCAB, 10 if tier == "quick" else 30)
    g2 = rnd.sample(GAPS, 4 if tier == "quick" else 8)
    run_shape(ctx, "tok gap tok gap tok (sampled vocabulary)", [sub, g2, sub, g2, sub])
    tv = VOCAB if tier == "thorough" else rnd.sample(VOCAB, 25) + ["x", ";"]
    run_shape(ctx, "token tail (text ends in a gap or directive, with and without newline)", [tv, TAILS])
    run_shape(ctx, "token tail token", [["x", ";", "42"], TAILS, ["y", "}", "tt", "2", "1", "4u"]])
    from . import lextrace
    lextrace.validate_corpus(ctx, tier)
    ctx.cov["exhaustive"] = True
    ctx.note("exhaustive_scope", "string population and token-pair layouts are complete within their bounds")
    ctx.assumptions += ["spec/CLiterals.tla is C99 6.4 plus the named pycparser extensions",
                        "directive lines end in a newline (C99 5.1.1.2); after the first reported error only progress is required"]
    return ctx.finish()


def replay(path):
    r = json.load(open(path))["replay"]
    if r.get("kind") == "lex":
        x = _cmp(r["exp"])
        if x:
            print("VIOLATION property=C09 replay=%s" % path)
            print("  what:", x[1])
            return 1
        return 0
    from . import lextrace
    return lextrace.replay(path, "C09")
