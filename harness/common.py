"""Shared machinery: paths, TLC runner, evidence writer, findings matcher, worker pool.

Exit codes of every check: 0 = property held on everything explored (known findings are
printed as KNOWN-FINDING lines), 1 = at least one VIOLATION line, 2 = machinery failure
(MACHINERY-ERROR line; never a VIOLATION).
"""
import hashlib
import json
import os
import re
import shutil
import subprocess
import sys
import time

VERIF = os.path.dirname(os.path.dirname(os.path.abspath(__file__)))
REPO = os.environ.get("VERIF_REPO", "/repo")
SPEC = os.path.join(VERIF, "spec")
TLA_JAR = "/opt/veriftools/tla/tla2tools.jar"
TLA_CP = TLA_JAR + ":/opt/veriftools/tla/CommunityModules-deps.jar"
NCPU = min(16, os.cpu_count() or 1)

os.environ["PYCPARSER_VERIF"] = "1"
os.environ.setdefault("PYTHONHASHSEED", "0")
if REPO not in sys.path:
    sys.path.insert(0, REPO)


class MachineryError(Exception):
    pass


# --------------------------------------------------------------------------- work dirs
def workdir(tag):
    d = os.path.join(VERIF, ".work", "%s-%d-%s" % (tag, os.getpid(), hashlib.md5(
        str(time.time()).encode()).hexdigest()[:6]))
    os.makedirs(d, exist_ok=True)
    return d


def rmtree(d):
    shutil.rmtree(d, ignore_errors=True)


# --------------------------------------------------------------------------- TLC
class TLCResult:
    def __init__(self):
        self.rc = None
        self.out = ""
        self.generated = 0
        self.distinct = 0
        self.exports = []      # decoded "@@" JSON values
        self.acc = set()       # tids printed by <<"ACC", tid>>
        self.notes = []        # other PrintT tuples, as raw strings
        self.coverage = {}     # action name -> count (when coverage=True)
        self.errors = []
        self.wall = 0.0
        self.violated = None   # name of violated invariant / property, if any


_RE_STATES = re.compile(r"(\d+) states generated, (\d+) distinct states found")
_RE_SIM = re.compile(r"The number of states generated: (\d+)")
_RE_COV = re.compile(r"^<(\w+) line \d+, col \d+ to line \d+, col \d+ of module (\w+)>: (\d+):(\d+)")
_RE_ACC = re.compile(r'^<<"ACC", (\d+)>>')
_RE_INV = re.compile(r"Invariant (\w+) is violated|Action property (\w+) is violated|"
                     r"Temporal properties were violated")


def tlc(module, cfg, *, workers=None, simulate=None, depth=None, seed=None, env=None,
        coverage=False, deque=False, timeout=3600, wd=None, xss=None, keep_out=False,
        on_export=None, extra=None, continue_=False):
    """Run TLC on spec/<module>.tla (or an absolute .tla path) with config text `cfg`.

    cfg is the *text* of the configuration file.  Returns a TLCResult.  `on_export`, when
    given, is called with each decoded "@@" value instead of collecting them.
    """
    own = wd is None
    wd = wd or workdir("tlc")
    res = TLCResult()
    try:
        tla = module if module.endswith(".tla") else os.path.join(SPEC, module + ".tla")
        if not os.path.exists(tla):
            raise MachineryError("no such module " + tla)
        cfgp = os.path.join(wd, os.path.basename(tla)[:-4] + "-%d.cfg" % (time.time_ns() % 10**9))
        with open(cfgp, "w") as f:
            f.write(cfg)
        meta = os.path.join(wd, "meta-%d" % (time.time_ns() % 10**9))
        jopts = ["-XX:+UseParallelGC", "-Xmx12g"]
        if xss:
            jopts.append("-Xss" + xss)
        if deque:
            jopts.append("-Dtlc2.tool.queue.IStateQueue=StateDeque")
        libs = SPEC + os.pathsep + os.path.dirname(tla)
        cmd = ["java"] + jopts + ["-DTLA-Library=" + libs, "-cp", TLA_CP, "tlc2.TLC",
                                  "-workers", str(workers or NCPU), "-metadir", meta,
                                  "-noGenerateSpecTE", "-config", cfgp]
        if simulate is not None:
            cmd += ["-simulate", "num=%d" % simulate]
        if depth is not None:
            cmd += ["-depth", str(depth)]
        if seed is not None:
            cmd += ["-seed", str(seed)]
        if coverage:
            cmd += ["-coverage", "1"]
        if continue_:
            cmd += ["-continue"]
        if extra:
            cmd += extra
        cmd.append(tla)
        e = dict(os.environ)
        e.pop("JAVA_TOOL_OPTIONS", None)
        if env:
            e.update({k: str(v) for k, v in env.items()})
        t0 = time.time()
        p = subprocess.Popen(cmd, cwd=wd, env=e, stdout=subprocess.PIPE,
                             stderr=subprocess.STDOUT, text=True, errors="replace")
        lines = []
        try:
            for line in p.stdout:
                if line.startswith('"@@'):
                    try:
                        v = json.loads(json.loads(line)[2:])
                    except Exception as ex:  # noqa
                        raise MachineryError("bad export line: %r (%s)" % (line[:200], ex))
                    if on_export is not None:
                        on_export(v)
                    else:
                        res.exports.append(v)
                    continue
                m = _RE_ACC.match(line)
                if m:
                    res.acc.add(int(m.group(1)))
                    continue
                if line.startswith("<<") or line.startswith('"##'):
                    res.notes.append(line.rstrip("\n"))
                    continue
                lines.append(line)
                if time.time() - t0 > timeout:
                    p.kill()
                    raise MachineryError("TLC timeout after %ds: %s" % (timeout, module))
            p.wait()
        finally:
            if p.poll() is None:
                p.kill()
        res.wall = time.time() - t0
        res.rc = p.returncode
        out = "".join(lines)
        res.out = out
        for m in _RE_STATES.finditer(out):
            res.generated, res.distinct = int(m.group(1)), int(m.group(2))
        if simulate is not None:
            m = _RE_SIM.search(out)
            if m:
                res.generated = int(m.group(1))
                res.distinct = res.distinct or res.generated
        if coverage:
            for ln in out.splitlines():
                m = _RE_COV.match(ln.strip())
                if m:
                    res.coverage[m.group(1)] = res.coverage.get(m.group(1), 0) + int(m.group(3))
        m = _RE_INV.search(out)
        if m:
            res.violated = m.group(1) or m.group(2) or "temporal"
        res.errors = [ln for ln in out.splitlines() if ln.startswith("Error:")]
        return res
    finally:
        if own and not keep_out:
            rmtree(wd)


def tlc_ok(res, what):
    """Raise MachineryError unless TLC finished cleanly (rc 0, no errors)."""
    if res.rc != 0 or res.errors:
        tail = "\n".join(res.out.splitlines()[-40:])
        raise MachineryError("%s: TLC rc=%s errors=%s\n%s" % (what, res.rc, res.errors[:3], tail))


def sany(path):
    r = subprocess.run(["java", "-DTLA-Library=" + SPEC, "-cp", TLA_CP, "tla2sany.SANY", path],
                       capture_output=True, text=True, cwd=os.path.dirname(path))
    ok = r.returncode == 0 and "Semantic errors" not in r.stdout and "*** Errors" not in r.stdout \
        and "Parse Error" not in r.stdout and "Fatal errors" not in r.stdout
    return ok, r.stdout + r.stderr


# --------------------------------------------------------------------------- findings
_FINDINGS = None


def findings():
    global _FINDINGS
    if _FINDINGS is None:
        p = os.path.join(VERIF, "known_findings.json")
        _FINDINGS = json.load(open(p))["findings"] if os.path.exists(p) else []
    return _FINDINGS


# --------------------------------------------------------------------------- per-check context
class Ctx:
    def __init__(self, prop, tier, level, seed=None):
        self.prop = prop
        self.tier = tier
        self.level = level
        self.seed = int(os.environ.get("VERIF_SEED", "0") if seed is None else seed)
        self.t0 = time.time()
        self.cov = {"samples": [], "rule": "", "evaluations": 0, "distinct_nontrivial": 0,
                    "states": 0, "transitions": 0, "traces_validated_against_impl": 0}
        self.assumptions = []
        self.violations = []        # (signature, replay_path)
        self.known_hits = {}        # finding id -> count
        self.known_example = {}
        self.drift = {}
        self.parts = {}             # named sub-results recorded in coverage
        self._sigs_seen = set()
        self.sig_hist = {}

    # -- accounting
    def add_tlc(self, res, name=None):
        self.cov["states"] += res.distinct
        self.cov["transitions"] += res.generated
        if name:
            self.parts.setdefault("tlc_runs", []).append(
                dict(name=name, generated=res.generated, distinct=res.distinct,
                     wall_s=round(res.wall, 1), coverage=res.coverage or None))

    def count(self, n=1, nontrivial=0, traces=0):
        self.cov["evaluations"] += n
        self.cov["distinct_nontrivial"] += nontrivial
        self.cov["traces_validated_against_impl"] += traces

    def sample(self, s, cap=6):
        if len(self.cov["samples"]) < cap:
            self.cov["samples"].append(s)

    def note(self, key, value):
        self.parts[key] = value

    # -- failures
    def fail(self, sig, replay):
        """Report a failing case.  `sig` is a short canonical string describing what failed
        (used for the findings match), `replay` a JSON-able dict that reproduces it."""
        for f in findings():
            if f.get("property") == self.prop and f.get("status") == "open" and \
                    re.search(f["pattern"], sig, re.S):
                self.known_hits[f["id"]] = self.known_hits.get(f["id"], 0) + 1
                self.known_example.setdefault(f["id"], sig)
                return "known"
        key = re.sub(r"\d+", "N", sig)[:160]
        hk = re.sub(r"(feat|src|text|devitems)=.*", "", key)[:110]
        self.sig_hist[hk] = self.sig_hist.get(hk, 0) + 1
        if key in self._sigs_seen and len(self.violations) >= 1:
            self.parts["suppressed_duplicate_violations"] = \
                self.parts.get("suppressed_duplicate_violations", 0) + 1
            return "dup"
        self._sigs_seen.add(key)
        if len(self.violations) >= 40:
            self.violations.append((sig, self.violations[-1][1]))
            return "violation"
        os.makedirs(os.path.join(VERIF, "replays"), exist_ok=True)
        h = hashlib.sha1(json.dumps([sig, replay], sort_keys=True, default=str).encode()).hexdigest()[:12]
        path = os.path.join(VERIF, "replays", "%s-%s.json" % (self.prop, h))
        with open(path, "w") as f:
            json.dump(dict(property=self.prop, signature=sig, replay=replay), f, indent=1, default=str)
        self.violations.append((sig, path))
        if len(self.violations) <= 25:
            print("VIOLATION property=%s replay=%s" % (self.prop, path))
            print("  what: %s" % sig[:400])
            sys.stdout.flush()
        return "violation"

    def drift_note(self, what):
        self.drift[what] = self.drift.get(what, 0) + 1

    # -- finish
    def finish(self):
        for fid, n in sorted(self.known_hits.items()):
            f = [x for x in findings() if x["id"] == fid][0]
            print("KNOWN-FINDING: property=%s %s %s (%d cases)" % (self.prop, fid, f["what"], n))
        for k, n in sorted(self.drift.items()):
            print("DRIFT: %s (%d cases)" % (k, n))
        if self.sig_hist:
            print("violation classes (signature prefix : count):")
            for k, n in sorted(self.sig_hist.items(), key=lambda kv: -kv[1])[:20]:
                print("   %6d  %s" % (n, k))
        cov = dict(self.cov)
        cov.update(self.parts)
        if self.known_hits:
            cov["known_findings_hit"] = self.known_hits
        if self.drift:
            cov["drift"] = self.drift
        if cov["distinct_nontrivial"] > cov["evaluations"]:
            cov["distinct_nontrivial"] = cov["evaluations"]
        if not cov["samples"]:
            cov["samples"] = ["(no sample recorded)"]
        ev = dict(property_id=self.prop, tier=self.tier, seed=self.seed, level=self.level,
                  coverage=cov, assumptions=self.assumptions,
                  wall_s=round(time.time() - self.t0, 2), violations=len(self.violations))
        # evidence is about /repo: a run against another tree (seeded changes, VERIF_REPO) leaves it alone
        evdir = os.path.join(VERIF, "evidence") if os.path.realpath(REPO) == "/repo" else os.path.join(VERIF, ".work", "evidence-other-tree")
        os.makedirs(evdir, exist_ok=True)
        with open(os.path.join(evdir, self.prop + ".json"), "w") as f:
            json.dump(ev, f, indent=1, default=str)
        print("%s %s: evaluations=%d states=%d traces=%d violations=%d known=%d wall=%.1fs" % (
            self.prop, self.tier, cov["evaluations"], cov["states"],
            cov["traces_validated_against_impl"], len(self.violations),
            sum(self.known_hits.values()), time.time() - self.t0))
        return 1 if self.violations else 0


# --------------------------------------------------------------------------- worker pool
_POOL = None


def pool():
    global _POOL
    if _POOL is None:
        import multiprocessing as mp
        _POOL = mp.get_context("fork").Pool(NCPU)
    return _POOL


def pmap(fn, items, chunk=64, force=False):
    items = list(items)
    if len(items) < 200 and not (force and len(items) > 1):
        return [fn(x) for x in items]
    return pool().map(fn, items, chunksize=chunk)


def close_pool():
    global _POOL
    if _POOL is not None:
        _POOL.terminate()
        _POOL = None


def git_head(path):
    try:
        return subprocess.check_output(["git", "-C", path, "rev-parse", "--short", "HEAD"], text=True).strip()
    except Exception:
        return "?"


# --------------------------------------------------------------------------- TLA+ literals
def tla_str(s):
    out = ['"']
    for c in s:
        if c == '"':
            out.append('\\"')
        elif c == "\\":
            out.append("\\\\")
        elif c == "\n":
            out.append("\\n")
        elif c == "\t":
            out.append("\\t")
        elif c == "\r":
            out.append("\\r")
        elif c == "\f":
            out.append("\\f")
        elif 32 <= ord(c) < 127:
            out.append(c)
        else:
            raise MachineryError("character %r cannot be written as a TLA+ string literal" % c)
    out.append('"')
    return "".join(out)


def tla_val(v):
    if isinstance(v, bool):
        return "TRUE" if v else "FALSE"
    if isinstance(v, int):
        return str(v)
    if isinstance(v, str):
        return tla_str(v)
    if isinstance(v, (list, tuple)):
        return "<<" + ", ".join(tla_val(x) for x in v) + ">>"
    if isinstance(v, (set, frozenset)):
        return "{" + ", ".join(tla_val(x) for x in sorted(v, key=repr)) + "}"
    if isinstance(v, dict):
        return "[" + ", ".join("%s |-> %s" % (k, tla_val(x)) for k, x in v.items()) + "]"
    raise MachineryError("no TLA+ literal for %r" % (v,))


def mc_module(wd, base, defs, name=None):
    """Write MC_<base>.tla into wd: EXTENDS base plus `defs` (name -> python value or raw TLA+
    text when given as ("raw", text)).  Returns (path, cfg lines 'Const <- MCname')."""
    name = name or ("MC_" + base)
    lines = ["---- MODULE %s ----" % name, "EXTENDS " + base]
    subst = []
    for k, v in defs.items():
        body = v[1] if isinstance(v, tuple) and v and v[0] == "raw" else tla_val(v)
        lines.append("MC_%s == %s" % (k, body))
        subst.append("%s <- MC_%s" % (k, k))
    lines.append("====")
    path = os.path.join(wd, name + ".tla")
    with open(path, "w") as f:
        f.write("\n".join(lines) + "\n")
    return path, "CONSTANTS\n" + "\n".join(subst) + "\n"
