"""Layouts of a token sequence (C09 / C11 / C17): the same tokens, different white space,
newlines and line directives between them."""
import random

MARKERS = ['\n# %d "inc/m%d.h"\n', '\n#line %d\n', '\n# %d "m%d.h" 1 3\n', '\n# %d "run%d.h"\n#line 77\n', '\n# %d "run%d.h" 2\n# 55\n# 66\n']


def needs_space(a, b):
    """Conservative separator rule: a blank is needed unless one side is a bracket/semicolon/comma
    (whose adjacency never changes maximal munch)."""
    safe = set("()[]{};,")
    return not (a[-1] in safe or b[0] in safe)


def render(toks, mode, rnd=None, marker_gaps=None):
    """toks: list of spellings (pragma chunks contain their own newlines).
    mode: 'space' | 'lines' | 'tight' | 'random' | 'markers' | 'sameline' | 'flagged'."""
    out = []
    n = len(toks)
    for i, t in enumerate(toks):
        out.append(t)
        if i == n - 1:
            break
        nxt = toks[i + 1]
        if t.endswith("\n") or nxt.startswith("\n"):
            gap = ""
            # a line directive may stand on the line directly after a #pragma line (no blank line between)
            if mode == "markers" and t.endswith("\n") and not nxt.startswith("\n") and rnd.random() < 0.5:
                m = rnd.choice(MARKERS)
                gap = (m % ((rnd.randint(1, 900), rnd.randint(1, 4)) if m.count("%d") == 2 else (rnd.randint(1, 900),)))[1:]
        elif mode == "space":
            gap = " "
        elif mode == "lines":
            gap = "\n"
        elif mode == "tight":
            gap = " " if needs_space(t, nxt) else ""
        elif mode == "random":
            gap = rnd.choice([" ", "  ", "\t", "\n", " \n\t ", "\n\n"])
        elif mode == "sameline":
            # every token on a line of its own, each line renumbered to the same number: all tokens share (line, column);
            # the file name alternates, so that only the file tells neighbouring tokens apart
            gap = "\n# 7 \"same%d.h\"\n" % (i % 2)
        elif mode == "flagged":
            # every token alone on its line, after a linemarker that carries flags
            gap = "\n# %d \"fl%d.h\" %s\n" % (10 + i, i % 3, ["1", "2", "1 3", "3 4", "2 3 4"][i % 5])
        elif mode == "markers":
            if marker_gaps is not None:
                hit = i in marker_gaps
            else:
                hit = rnd.random() < 0.25
            if hit:
                m = rnd.choice(MARKERS)
                gap = m % ((rnd.randint(1, 900), rnd.randint(1, 4)) if m.count("%d") == 2 else (rnd.randint(1, 900),))
            else:
                gap = rnd.choice([" ", "\n", "\t"])
        else:
            raise ValueError(mode)
        out.append(gap)
    return "".join(out)
