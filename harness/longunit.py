"""Long translation units made of many small derived programs (C01, C03, C07).

A derived program is small; the parser, however, keeps state that depends on how much input came before (look-ahead
buffer, marks, scope table).  Each unit concatenates n programs whose file-scope names do not clash; it must be accepted
whenever every part is, and its external declarations must be the concatenation of the parts' external declarations
(coordinates aside).  Unit sizes are drawn so that the token offsets of the parts sweep past powers of two."""
import random

from .proj import proj, diff


def make_units(snippets, rnd, nunits, lo=20, hi=400):
    units = []
    for _ in range(nunits):
        n = rnd.randint(lo, hi)
        units.append([rnd.choice(snippets) for _ in range(n)])
    return units


def check_unit(args):
    """(prelude, [snippet]) -> (nparts, failures) ; a snippet is C text valid after `prelude` at file scope."""
    prelude, parts = args
    from pycparser import c_parser
    npre = len(c_parser.CParser().parse(prelude, "u.c").ext) if prelude else 0
    solo = []
    keep = []
    for s in parts:
        try:
            a = c_parser.CParser().parse(prelude + s, "u.c")
        except Exception:
            continue            # reported by the per-program check
        solo.append([proj(x) for x in a.ext[npre:]])
        keep.append(s)
    if not keep:
        return 0, []
    text = prelude + " ".join(keep)
    try:
        a = c_parser.CParser().parse(text, "u.c")
    except Exception as e:
        # localise: the shortest prefix of parts that is rejected
        lo, hi = 1, len(keep)
        while lo < hi:
            mid = (lo + hi) // 2
            try:
                c_parser.CParser().parse(prelude + " ".join(keep[:mid]), "u.c")
                lo = mid + 1
            except Exception:
                hi = mid
        return len(keep), [("unit of %d accepted programs rejected (%s: %s) at part %d: %s" % (
            len(keep), type(e).__name__, str(e).split(": ", 1)[-1][:50], lo, keep[lo - 1][:80]), text)]
    got = [proj(x) for x in a.ext[npre:]]
    want = [x for part in solo for x in part]
    if len(got) != len(want):
        return len(keep), [("unit of %d programs: %d external declarations, the parts have %d" % (len(keep), len(got), len(want)), text)]
    for i, (g, w) in enumerate(zip(got, want)):
        d = diff(w, g)
        if d:
            return len(keep), [("unit of %d programs: external declaration %d differs from the same program parsed alone: %s" % (
                len(keep), i + 1, d[:120]), text)]
    return len(keep), []


# ---- long lists: the i-th item of a list is parsed like the same item in a list of one, for every i
# kind -> (template, separator, extractor of the list from the AST, extractor of the nodes one item contributes)
def _lists():
    return {
        "params_proto": ("typedef int T ; void f ( %s ) ;", " , ", lambda a: a.ext[-1].type.args.params),
        "args": ("typedef int T ; void f ( void ) { g ( %s ) ; }", " , ", lambda a: a.ext[-1].body.block_items[0].args.exprs),
        "init_items": ("typedef int T ; int x [ ] = { %s } ;", " , ", lambda a: a.ext[-1].init.exprs),
        "enumerators": ("typedef int T ; enum E { %s } ;", " , ", lambda a: a.ext[-1].type.values.enumerators),
        "members": ("typedef int T ; struct S { %s } ;", " ", lambda a: a.ext[-1].type.decls),
        "declarators": ("typedef int T ; int %s ;", " , ", lambda a: a.ext[1:]),
        "block_items": ("typedef int T ; void f ( void ) { %s }", " ", lambda a: a.ext[-1].body.block_items),
        "externals": ("typedef int T ; %s", " ", lambda a: a.ext[1:]),
    }


def check_list(args):
    """(kind, [item spelling], seed) -> (n items, failures)."""
    kind, items, seed = args
    from pycparser import c_parser
    tmpl, sep, get = _lists()[kind]
    solo = {}
    for it in set(items):
        try:
            solo[it] = [proj(x) for x in get(c_parser.CParser().parse(tmpl % it, "l.c"))]
        except Exception:
            solo[it] = None
    items = [it for it in items if solo[it] is not None]
    if not items:
        return 0, []
    text = tmpl % sep.join(items)
    try:
        got = [proj(x) for x in get(c_parser.CParser().parse(text, "l.c"))]
    except Exception as e:
        return len(items), [("%s list of %d items, each accepted alone, rejected: %s: %s" % (
            kind, len(items), type(e).__name__, str(e).split(": ", 1)[-1][:60]), text)]
    want = [x for it in items for x in solo[it]]
    if len(got) != len(want):
        return len(items), [("%s list of %d items: %d nodes in the AST, %d expected" % (kind, len(items), len(got), len(want)), text)]
    for i, (g, w) in enumerate(zip(got, want)):
        d = diff(w, g)
        if d:
            return len(items), [("%s list: node %d of %d differs from the same item in a list of one: %s" % (kind, i + 1, len(want), d[:120]), text)]
    return len(items), []


def list_jobs(kinds, spellings, rnd, per_kind, lo=40, hi=90):
    """spellings: kind -> item spellings (harness/checks/c16.LISTS); returns jobs for check_list."""
    jobs = []
    for k in kinds:
        sp = spellings[k]
        for _ in range(per_kind):
            n = rnd.randint(lo, hi)
            jobs.append((k, [rnd.choice(sp) for _ in range(n)], rnd.randrange(1 << 30)))
        for s in sp:                       # and each spelling repeated on its own
            jobs.append((k, [s] * rnd.randint(lo, hi), 0))
    return jobs
