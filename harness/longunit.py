"""Long translation units made of many small derived programs (C01, C03, C07).

A derived program is small; the parser, however, keeps state that depends on how much input came before (look-ahead
buffer, marks, scope table).  Each unit concatenates n programs whose file-scope names do not clash; it must be accepted
whenever every part is, and its external declarations must be the concatenation of the parts' external declarations
(coordinates aside).  Unit sizes are drawn so that the token offsets of the parts sweep past powers of two."""
import random

from .proj import proj, diff


def make_units(snippets, rnd, nunits, lo=20, hi=400):
    units = []
    for _ in range(nunits):
        n = rnd.randint(lo, hi)
        units.append([rnd.choice(snippets) for _ in range(n)])
    return units


def check_unit(args):
    """(prelude, [snippet]) -> (nparts, failures) ; a snippet is C text valid after `prelude` at file scope."""
    prelude, parts = args
    from pycparser import c_parser
    npre = len(c_parser.CParser().parse(prelude, "u.c").ext) if prelude else 0
    solo = []
    keep = []
    for s in parts:
        try:
            a = c_parser.CParser().parse(prelude + s, "u.c")
        except Exception:
            continue            # reported by the per-program check
        solo.append([proj(x) for x in a.ext[npre:]])
        keep.append(s)
    if not keep:
        return 0, []
    text = prelude + " ".join(keep)
    try:
        a = c_parser.CParser().parse(text, "u.c")
    except Exception as e:
        # localise: the shortest prefix of parts that is rejected
        lo, hi = 1, len(keep)
        while lo < hi:
            mid = (lo + hi) // 2
            try:
                c_parser.CParser().parse(prelude + " ".join(keep[:mid]), "u.c")
                lo = mid + 1
            except Exception:
                hi = mid
        return len(keep), [("unit of %d accepted programs rejected (%s: %s) at part %d: %s" % (
            len(keep), type(e).__name__, str(e).split(": ", 1)[-1][:50], lo, keep[lo - 1][:80]), text)]
    got = [proj(x) for x in a.ext[npre:]]
    want = [x for part in solo for x in part]
    if len(got) != len(want):
        return len(keep), [("unit of %d programs: %d external declarations, the parts have %d" % (len(keep), len(got), len(want)), text)]
    for i, (g, w) in enumerate(zip(got, want)):
        d = diff(w, g)
        if d:
            return len(keep), [("unit of %d programs: external declaration %d differs from the same program parsed alone: %s" % (
                len(keep), i + 1, d[:120]), text)]
    return len(keep), []
