"""Regenerates the table of seeded changes in DESIGN.md (between the seeded-table markers) from seeded/*/meta.json.
Development tool: python -m harness.seedtable"""
import glob
import json
import os
import re

VERIF = os.path.dirname(os.path.dirname(os.path.abspath(__file__)))


def cell(s, n):
    s = re.sub(r"\s+", " ", str(s or "")).replace("|", "/")
    return s[:n] + ("..." if len(s) > n else "")


def main():
    rows = ["| seeded change | what it does | needs | caught by |", "|---|---|---|---|"]
    for d in sorted(glob.glob(os.path.join(VERIF, "seeded", "*"))):
        mp = os.path.join(d, "meta.json")
        if not os.path.exists(mp):
            continue
        m = json.load(open(mp))
        caught = [c for c, v in m.get("checks", {}).items() if v["exit"] == 1 and v["violations"] > 0]
        rows.append("| %s | %s | %s | %s |" % (os.path.basename(d), cell(m.get("summary"), 260), cell(m.get("needs"), 170),
                                            ", ".join(caught) or "MISSED"))
    p = os.path.join(VERIF, "DESIGN.md")
    s = open(p).read()
    a, b = "<!-- seeded-table-begin -->", "<!-- seeded-table-end -->"
    if a not in s:
        raise SystemExit("markers missing in DESIGN.md")
    s = s[:s.index(a) + len(a)] + "\n" + "\n".join(rows) + "\n" + s[s.index(b):]
    open(p, "w").write(s)
    print(len(rows) - 2, "rows")


if __name__ == "__main__":
    main()
