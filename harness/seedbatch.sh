#!/bin/sh
# usage: seedbatch.sh <suffix> <outsuffix> ids...   e.g. seedbatch.sh b out2 C01 C02
sfx=$1; out=$2; shift 2
for c in "$@"; do
  if [ -f /tmp/mut/$c.$out/meta.json ]; then
    echo "== $c-$sfx"; cd /verif && /venv/bin/python -m harness.seedrun $c-$sfx /tmp/mut/$c.$out 2>&1 | tail -3
  else echo "== $c-$sfx: no deliverables yet"; fi
done
