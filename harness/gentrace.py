"""Generator event traces (hooks gen.enter / gen.block / gen.leave) and their validation against
spec/GenTrace.tla (code -> spec; used by C12 and C07)."""
import json
import os
import re

from . import common
from .common import tlc, tlc_ok, workdir, rmtree


def record(gen, nodes):
    """Visit `nodes` one after the other with the one generator `gen`; returns (trace, outputs) where outputs[i]
    is the generated text or the exception."""
    from pycparser import _verif
    if not _verif.INSTALLED:
        raise common.MachineryError("hooks are not installed (PYCPARSER_VERIF)")
    ev = []

    def sink(e):
        if e["e"] in ("gen.enter", "gen.leave", "gen.block") and e["i"] == id(gen):
            if e["e"] == "gen.block":
                ev.append(dict(e="block", ind0=e["ind0"], ind1=e["ind1"], ind=0, raised=False))
            else:
                ev.append(dict(e=e["e"][4:], ind=e["ind"], ind0=0, ind1=0, raised=bool(e.get("raised", False))))

    outs = []
    old = _verif.SINK
    _verif.set_sink(sink)
    try:
        for n in nodes:
            try:
                outs.append(gen.visit(n))
            except Exception as x:     # the caller decides what an exception means
                outs.append(x)
    finally:
        _verif.set_sink(old)
    return dict(ev=ev), outs


def validate(traces, label):
    """Returns (set of accepted 1-based indices, {index: deepest event reached}, TLCResult)."""
    if not traces:
        raise common.MachineryError("GenTrace: no traces")
    if any(not t["ev"] for t in traces):
        raise common.MachineryError("GenTrace: a generator run produced no events (hooks missing?)")
    wd = workdir("gent")
    try:
        p = os.path.join(wd, "traces.json")
        json.dump(traces, open(p, "w"))
        res = tlc("GenTrace", "INIT GInit\nNEXT GNext\nINVARIANT Acc\nINVARIANT Diag\nCHECK_DEADLOCK FALSE\n", wd=wd,
                  env=dict(TRACES=p), workers=4)
        tlc_ok(res, "GenTrace " + label)
        deep = {}
        for n in res.notes:
            m = re.match(r'<<"AT", (\d+), (\d+)>>', n)
            if m:
                deep[int(m.group(1))] = max(deep.get(int(m.group(1)), 0), int(m.group(2)))
        return set(res.acc), deep, res
    finally:
        rmtree(wd)


def explain(trace, at):
    ev = trace["ev"]
    if at is None or at > len(ev):
        return "all events consumed but a visit is still open"
    e = ev[at - 1]
    return "event %d/%d not allowed by GenTrace: %s" % (at, len(ev), {k: v for k, v in e.items() if k in (
        ("e", "ind0", "ind1") if e["e"] == "block" else ("e", "ind", "raised"))})
