"""Generates /verif/MANIFEST.json from the table below (run: ./check manifest)."""
import json
import os
import subprocess

from .common import VERIF, REPO

GUARD = "PYCPARSER_VERIF"

CHECKS = {
    "C02": dict(
        category="model_checking", design_ref="DESIGN.md section 5 C02, 3.5 (CExpr)",
        technique="TLC-enumerated derivations of a TLA+ expression grammar (CExpr.tla) replayed into CParser; AST-guided TLA+ matcher on observed (tokens, AST)",
        text="TLC exhaustively enumerates every derivation of the C99 6.5 level table (spec/CExpr.tla) within a bound on "
             "operator nodes, in three parenthesisation modes; each complete state carries the tree the grammar assigns; "
             "every state is replayed through CParser in the 8 expression contexts and the projected AST must equal the "
             "state's. Small-scope exhaustive (<=2 nodes quick, <=3 thorough, all 47 concrete operators) plus TLC "
             "-simulate to 5 nodes.",
        note="trusted: TLC, the level table in CExpr.tla as a reading of C99 6.5, the 60-line projection harness/proj.py"),
}

CHECKS.update({
    "C04": dict(
        category="model_checking", design_ref="DESIGN.md section 5 C04, 3.4 (Scope / ScopeImpl), 3.3 (TokStream)",
        technique="TLC-enumerated declaration histories of a TLA+ scope machine (Scope.tla) replayed as probe programs in canonical and alternative spellings; lexer/parser protocol model ScopeImpl.tla; hook traces validated against ParserTrace.tla",
        text="TLC enumerates every history of declarations of 2 names over file/function/block scopes (spec/Scope.tla = C99 "
             "6.2.1/6.2.3, with pycparser's mechanism carried alongside as named deviations and the refinement between the "
             "two model-checked); every history ends in a probe whose class the standard fixes and is replayed through "
             "CParser in all four probe shapes. The hook traces of the rendered programs and of the corpus are validated "
             "event by event against spec/ParserTrace.tla (innermost lookup, class frozen at lex time, lookahead safety, "
             "scope/brace agreement).",
        note="trusted: TLC, Scope.tla as a reading of 6.2.1, the renderer of histories in harness/checks/c04.py"),
    "C09": dict(
        category="model_checking", design_ref="DESIGN.md section 5 C09, 3.1-3.2 (CLiterals, CLex)",
        technique="TLA+ lexer cursor machine (CLex.tla) model-checked over all short strings and token/gap layouts, replayed into CLexer; recorded token() calls validated against CLexTrace.tla",
        text="spec/CLex.tla (cursor machine over C99 6.4 / 6.10.4 scanners in CLiterals.tla) is run by TLC over every string up "
             "to length 4 (quick) / 5 (thorough) over a 20-character alphabet and over token-gap-token(-gap-token) layouts of "
             "the full vocabulary incl. #line, linemarkers and #pragma; Progress, Lossless, PositionExact, Accounted and "
             "LiteralsWellFormed are checked on the spec; every finished state (expected tokens with line/column, final "
             "cursor, or the offset range in which an error must be reported) is replayed into the real CLexer. In the other "
             "direction every token() call recorded on the preprocessed corpus and on random re-layouts is validated against "
             "CLexTrace.tla (cursor pos/line/lstart/file/pending recomputed from the raw text).",
        note="trusted: TLC, CLiterals.tla as a reading of C99 6.4, the comparison in harness/lexrun.py; after the first reported error only progress is required"),
    "C10": dict(
        category="model_checking", design_ref="DESIGN.md section 5 C10, 3.1 (CLiterals)",
        technique="TLA+ literal grammar (CLiterals.tla) enumerated by TLC over literal alphabets and building blocks, replayed into CLexer and CParser (Constant.type/value)",
        text="TLC enumerates every string over integer / floating / quote alphabets up to length 5-6 and every combination of "
             "literal building blocks (prefix x digits x suffix; prefix x quote x c-chars x quote); spec/CLiterals.tla decides "
             "class, well-formedness, the position where an error must be reported and the Constant.type the spelling "
             "implies; the real lexer must agree token for token and the real parser must build Constant(type, value) "
             "accordingly.",
        note="trusted: TLC, CLiterals.tla (C99 6.4.4/6.4.5 + named extensions), harness/lexrun.py"),
})

CHECKS.update({
    "C01": dict(
        category="model_checking", design_ref="DESIGN.md section 5 C01, 3.5 (CSyntax / CGram)",
        technique="TLC-enumerated derivations of a TLA+ grammar machine (CGram.tla: C99 Annex A + C11 productions) replayed into CParser; spec validated against gcc -fsyntax-only",
        text="TLC enumerates every complete derivation of spec/CGram.tla with at most 2 (quick) / 3 (thorough) non-default "
             "productions - every ordered pair / triple of productions in every nesting the grammar allows, from 9 root "
             "contexts - and samples deep derivations with -simulate; each derived program must be accepted by CParser.parse. "
             "The grammar machine itself is validated against gcc (a derived program gcc rejects syntactically is a machinery "
             "error, never a violation).",
        note="trusted: TLC, CGram.tla as a reading of Annex A (cross-checked with gcc on a sample every run)"),
    "C06": dict(
        category="model_checking", design_ref="DESIGN.md section 5 C06, 3.9 (Session.ParseEnd), TokSeq",
        technique="TLC-enumerated token sequences (TokSeq.tla) in 6 context prefixes and inside 12 constructs replayed into CParser.parse, outcome checked against the two ParseEnd shapes; sampled hook traces validated against ParserTrace.tla (SingleErrorChannel)",
        text="Every token sequence up to length 2 over the full 120-token alphabet, up to 3 over a 58-token core and up to 4 over "
             "16 tokens (quick; one more token each in thorough), in six context prefixes, plus raw character noise, is parsed; "
             "the outcome must be a FileAST or a ParseError whose message starts 'file:line:col: ' (a real token start) or "
             "'file: '. A sample is additionally validated event by event against spec/ParserTrace.tla, whose End action admits "
             "only these outcomes.",
        note="trusted: TLC, the outcome classifier harness/outcome.py; RecursionError tolerated as the property states"),
    "C07": dict(
        category="model_checking", design_ref="DESIGN.md section 5 C07, 3.6 (FrontTrace), 3.8 (CGen)",
        technique="round trip of TLC-derived programs (CGram.tla, CExpr.tla) and the corpus; the generated tokens are validated against the first AST by the AST-guided TLA+ matcher (FrontTrace.tla); generator indentation events validated against GenTrace.tla",
        text="Each program derived by TLC from the grammar machines and each corpus file is parsed, generated (both "
             "reduce_parentheses settings), re-parsed and re-generated: trees must be equal and the second text identical. "
             "Independently of the parser's grouping, the token sequence of the generated text must be accepted by "
             "spec/FrontTrace.tla as a yield of the FIRST AST under the C grammar (required parentheses present, nothing "
             "dropped or duplicated).",
        note="trusted: TLC, FrontTrace.tla, harness/proj.py; the matcher is applied inside its domain (no _Atomic(type-name) with declarator)"),
})

CHECKS.update({
    "C11": dict(
        category="model_checking", design_ref="DESIGN.md section 5 C11, 3.6 (FrontTrace CoordOK), 3.2 (CLex)",
        technique="observed (tokens, AST) of TLC-derived programs under line-directive layouts validated by the TLA+ matcher FrontTrace.tla with CoordOK; error locations validated by ParserTrace.tla (ErrorLocExact)",
        text="Programs derived by TLC from CGram.tla and the corpus are laid out with #line / linemarker directives that change "
             "file and line between arbitrary tokens; the hook-recorded tokens and the returned AST are validated by "
             "spec/FrontTrace.tla, which at the end of every matched node requires its coordinate to be (file, line, column) "
             "of a token inside the node's own span (exactly the spelling token for identifiers, constants, declared names, "
             "enumerators). Illegal characters are injected at token boundaries and spec/ParserTrace.tla requires the "
             "ParseError prefix to be the logical file:line:col of that character as the cursor machine CLex0 computes it.",
        note="trusted: TLC, FrontTrace.tla/ParserTrace.tla/CLex0.tla; token positions are bound to the raw text by C09"),
    "C17": dict(
        category="model_checking", design_ref="DESIGN.md section 5 C17, 3.2 (LayoutInvariance)",
        technique="LayoutInvariant model-checked on CLex.tla; TLC-derived programs and corpus re-laid out and compared; redundant parentheses placed on expression spans reported by the TLA+ matcher",
        text="TLC checks LayoutInvariant on spec/CLex.tla (token gap token texts lex to the chosen tokens whatever separating gap, "
             "incl. directives). Token sequences of TLC-derived programs and of the corpus are rendered in five layouts; AST "
             "(no coordinates) and generated text must be identical across them. The matcher FrontTrace.tla reports the token "
             "span of each expression node; wrapping any non-comma expression span in parentheses must change nothing.",
        note="trusted: TLC, harness/layout.py renderer, harness/proj.py"),
    "C18": dict(
        category="model_checking", design_ref="DESIGN.md section 5 C18, 3.3 (Brackets), TokSeq",
        technique="Brackets.tla (all bracket strings, single-mutant theorem) and TokSeq.tla MustReject oracle model-checked by TLC and replayed; mutants/injections of TLC-derived programs; ParserTrace AcceptedIsWellFormed on traces",
        text="TLC explores every bracket string up to length 6 (quick) / 8 (thorough) in spec/Brackets.tla, proving that every "
             "single-bracket mutant of a balanced string is unbalanced, and exports each string; every unbalanced one is "
             "embedded in six templates and must be rejected. Every single-bracket deletion, duplication and kind swap, and "
             "random single-position injections of non-token text and foreign directives, of TLC-derived programs and corpus "
             "files must be rejected with ParseError; TokSeq sequences the spec marks MustReject must be rejected; traces of "
             "accepted programs must satisfy ParserTrace's End clause (balanced, all consumed, no '#').",
        note="trusted: TLC, Brackets.tla, TokSeq.tla, harness/outcome.py"),
})

CHECKS.update({
    "C12": dict(
        category="model_checking", design_ref="DESIGN.md section 5 C12, 3.9 (Session)",
        technique="Session.tla (ParseBegin resets every component; reset necessity shown by TLC) with TLC-enumerated call histories replayed on one CParser instance; per-call hook traces validated against ParserTrace.tla (FreshStart); reused CGenerator event traces validated against GenTrace.tla (ReuseFresh)",
        text="TLC checks HistoryIndependence on spec/Session.tla and, as a vacuity guard, that dropping the reset of any "
             "component violates it; it enumerates every call history up to 3 (quick) / 4 (thorough) calls over a palette of 14 "
             "programs that dirty each component. Every history is replayed on one instance and compared call by call with "
             "fresh instances (AST incl. coordinates, or exception type and message; no node shared between results). Each call "
             "of sampled histories is validated event by event against ParserTrace.tla, whose Begin action demands the initial "
             "lexer state and whose lookups start from an empty scope table. Reused CLexer and CGenerator are compared with fresh ones.",
        note="trusted: TLC, harness/proj.py; the palette texts are in harness/checks/c12.py"),
    "C13": dict(
        category="model_checking", design_ref="DESIGN.md section 5 C13, 3.9 (Session, several instances)",
        technique="every schedule of Session.tla (TLC) replayed with a scheduling lexer injected through lexer=; per-instance event projections validated against ParserTrace.tla; Frame digest of module globals",
        text="TLC enumerates every interleaving at token granularity of 2-3 (quick) / 2-4 (thorough) parses of short programs "
             "with clashing typedef/object names, file names and #line directives (NonInterference and Frame checked on the "
             "model); each schedule is replayed with a scheduling lexer (one thread per parse, parked in token()) and must give "
             "the solo results. Random schedules of long programs are recorded in one event stream whose per-instance projections "
             "must each be a behaviour of ParserTrace.tla; a digest of all mutable module/class-level objects must never change; "
             "free-running threads with a 1 microsecond switch interval and interleaved CGenerator instances are compared with solo runs.",
        note="trusted: TLC, the scheduling lexer (a 10-line CLexer subclass) and the digest function in harness/checks/c13.py"),
    "C14": dict(
        category="model_checking", design_ref="DESIGN.md section 5 C14, 3.10 (AstSchema, Traversal)",
        technique="AstSchema.tla over the class table generated from _c_ast.cfg, enumerated by TLC and replayed on real node classes; recorded NodeVisitor visits validated against Traversal.tla",
        text="The class table is generated from /repo/pycparser/_c_ast.cfg at check time; TLC enumerates every class x every "
             "subset of child fields absent x sequence fields None/[]/1/2 elements and exports constructor order, attr_names and "
             "the expected children list; each instance is built for real (sentinel values) and compared incl. iteration and "
             "show(). NodeVisitor visit events recorded on ASTs of TLC-derived programs and the corpus, with and without "
             "interception, are validated against the explicit-stack pre-order machine spec/Traversal.tla.",
        note="trusted: TLC, the 30-line cfg reader in harness/proj.py"),
    "C15": dict(
        category="exploration", design_ref="DESIGN.md section 5 C15, 3.10 (AstStore)",
        technique="every action sequence of AstStore.tla (TLC: NoSharing, Independence) replayed on real ASTs: repr/eval, pickle protocols 2..5, deepcopy, mutate, generate",
        text="TLC enumerates every sequence of up to 3 (quick) / 4 (thorough) store actions over up to three live trees and checks "
             "the aliasing invariants on the model; each sequence is replayed on ASTs of TLC-derived programs, corpus files and "
             "literal-heavy programs (quotes, backslashes, non-ASCII): after every action each live tree must equal the value "
             "version the model assigns it (coordinates included for pickle/deepcopy), share no node object with another tree, "
             "and generate the expected C text.",
        note="the byte-level codecs are exercised by the harness; the model decides aliasing and equality"),
    "C16": dict(
        category="exploration", design_ref="DESIGN.md section 5 C16, 3.5 (Families), 3.3 (TokStream)",
        technique="pump cycles and flat list families of the grammar enumerated by TLC (Families.tla), instantiated at doubling sizes and measured in Python call events; ReconsumptionBound of ParserTrace.tla on their traces",
        text="spec/Families.tla holds the self-embedding structure of the grammar as pumps; TLC enumerates every simple cycle up "
             "to length 2 (quick) / 3 (thorough); each family and 19 repetition/declarator families are parsed at doubling sizes "
             "and the number of Python call events inside pycparser must at most double (x2.6). Traces of family instances are "
             "validated against ParserTrace.tla with the re-consumption bound R=8. Lexer regex families are timed with wide margins.",
        note="deterministic event counts, except the regex timing (0.5 s absolute, x3.5 per doubling)"),
    "C19": dict(
        category="exploration", design_ref="DESIGN.md section 5 C19, 3.11 (Pipeline)",
        technique="configuration space and argv of Pipeline.tla enumerated by TLC; each configuration run through parse_file with a recording cpp stand-in; cpp output lexer traces validated against CLexTrace.tla",
        text="TLC enumerates Header x Dialect x ArgForm exhaustively (all files under utils/fake_libc_include x 4 dialects x "
             "{str, list}) and exports the argv parse_file must produce; every configuration is run for real: argv equal to the "
             "model's, parse succeeds, result equals preprocessing and parsing by hand. Random header subsets/orders are followed "
             "by declarations, casts and sizeof uses of every typedef name of _fake_typedefs.h. The lexer traces of preprocessed "
             "headers are validated against CLexTrace.tla.",
        note="cpp (gcc 12) is an uninterpreted function of its argv"),
})

CHECKS.update({
    "C03": dict(
        category="model_checking", design_ref="DESIGN.md section 5 C03, 3.5 (CDecl), 3.7 (Splice)",
        technique="TLC-enumerated declarations of CDecl.tla (declarator trees with Chain = C99 6.7.5.1-3) replayed into CParser in 10 declaration contexts; corpus declarations validated by the TLA+ matcher; splice events checked",
        text="TLC enumerates every declarator syntax tree up to 3 (quick) / 4 (thorough) wrappers over pointer x qualifier sets, "
             "array x 8 bound forms, function x 6 parameter forms and parentheses in 7 declaration contexts (type names in cast, "
             "sizeof, _Alignof and compound literal), and at smaller depth all base specifiers x qualifiers, storage/function "
             "specifiers, two-declarator declarations, initializer forms with designators and bit-fields; each finished state "
             "carries the Decl/Typedef/Typename nodes the standard's inside-out rule assigns and is compared with the parser's "
             "after projection. The corpus's declarations are validated by FrontTrace.tla (SpecRun/Dtor) and every recorded "
             "_type_modify_decl splice against the tail-append rule.",
        note="trusted: TLC, Chain in CDecl.tla as C99 6.7.5.1-3, harness/proj.py; TypeDecl.align/Typename.align outside the projection"),
    "C05": dict(
        category="model_checking", design_ref="DESIGN.md section 5 C05, 3.5 (CStmt), 3.7 (SwitchFix)",
        technique="TLC-enumerated function bodies of CStmt.tla (6.8 with dangling else, pragma placement, declarative switch regrouping; SourceOrder/Regrouped checked by TLC) replayed into CParser; switchfix events checked",
        text="TLC enumerates every function body of spec/CStmt.tla up to 3 statement nodes over all 30 productions, 5 nodes over a "
             "switch-focused alphabet and 4 over a reduced alphabet (one more each in thorough), checks SourceOrder and Regrouped "
             "on the specification, and exports the expected Compound; each body is parsed and compared. Recorded "
             "fix_switch_cases events on the corpus are compared with the regrouping rule.",
        note="trusted: TLC, CStmt.tla as a reading of C99 6.8 and of pycparser's documented pragma/switch conventions"),
    "C08": dict(
        category="translation_validation", design_ref="DESIGN.md section 5 C08, 3.5 (typed machine CTyped)",
        technique="type-correct functions derived by TLC from CTyped.tla and the corpus: gcc -O0/-O1 -S of original vs regenerated text (both generator configurations), disagreements bisected to single functions",
        text="spec/CTyped.tla derives function bodies that are type-correct by construction over a fixed prelude (every operator, "
             "statement kind, struct/union/enum/bit-field access, function pointers, designated initializers, compound literals, "
             "qualifiers, storage classes); all production pairs exhaustively and deep derivations by -simulate. Functions are "
             "batched with file-scope declaration templates; original and regenerated text (reduce_parentheses False/True) are "
             "compiled with gcc -O0 -S and -O1 -S and the assembly must be identical; a difference is bisected to the function.",
        note="trusted: gcc 12 as the semantic oracle; a derived program gcc rejects is a machinery error"),
})

PENDING = {}


def build():
    props = [json.loads(l) for l in open(os.path.join(VERIF, "properties.jsonl"))]
    try:
        commits = subprocess.check_output(
            ["git", "-C", REPO, "log", "--format=%h %s", "--grep=^verif hooks"], text=True).strip().splitlines()
    except Exception:
        commits = []
    m = {
        "version": 1,
        "setup_cmd": "./check setup",
        "hooks": {
            "guard": GUARD,
            "enable": "environment variable PYCPARSER_VERIF=1 set before `import pycparser` (the checks set it themselves); "
                      "events flow only after pycparser._verif.set_sink(fn)",
            "baseline_off_cmd": "cd /repo && env -u PYCPARSER_VERIF /venv/bin/python -m pytest -ra -q -p no:cacheprovider --timeout=900 --continue-on-collection-errors",
            "source_commits": [c.split()[0] for c in commits],
            "add_only": True,
        },
        "engines": [
            {"name": "tlc", "path": "/opt/veriftools/tla/tla2tools.jar",
             "serves_properties": sorted(CHECKS),
             "kind_free_text": "TLC 1.8 explicit-state model checker: exhaustive BFS of the TLA+ specs in /verif/spec, -simulate beyond, batch trace validation"},
        ],
        "checks": [],
        "not_applicable": [],
        "notes": "Specification: /verif/spec/*.tla. Entry point ./check Cnn --tier quick|thorough. Exit 2 + MACHINERY-ERROR is a harness failure, never a violation.",
    }
    for p in props:
        pid = p["id"]
        if pid in CHECKS:
            c = CHECKS[pid]
            m["checks"].append({
                "property_id": pid,
                "quick_cmd": "./check %s --tier quick" % pid,
                "thorough_cmd": "./check %s --tier thorough" % pid,
                "evidence_file": "/verif/evidence/%s.json" % pid,
                "replay_cmd_template": "./check %s --replay {path}" % pid,
                "engine": "tlc",
                "level_claimed": {"category": c["category"], "text": c["text"], "design_ref": c["design_ref"]},
                "level_note": c["note"],
                "technique": c["technique"],
            })
        else:
            m["not_applicable"].append({"property_id": pid, "reason": PENDING.get(
                pid, "check not built yet in this session (planned: DESIGN.md section 5); not claimed until it is")})
    return m


def main():
    m = build()
    with open(os.path.join(VERIF, "MANIFEST.json"), "w") as f:
        json.dump(m, f, indent=1)
    print("MANIFEST.json: %d checks, %d not_applicable" % (len(m["checks"]), len(m["not_applicable"])))
    return 0
