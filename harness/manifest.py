"""Generates /verif/MANIFEST.json from the table below (run: ./check manifest)."""
import json
import os
import subprocess

from .common import VERIF, REPO

GUARD = "PYCPARSER_VERIF"

CHECKS = {
    "C02": dict(
        category="model_checking", design_ref="DESIGN.md section 5 C02, 3.5 (CExpr)",
        technique="TLC-enumerated derivations of a TLA+ expression grammar (CExpr.tla) replayed into CParser; AST-guided TLA+ matcher on observed (tokens, AST)",
        text="TLC exhaustively enumerates every derivation of the C99 6.5 level table (spec/CExpr.tla) within a bound on "
             "operator nodes, in three parenthesisation modes; each complete state carries the tree the grammar assigns; "
             "every state is replayed through CParser in the 8 expression contexts and the projected AST must equal the "
             "state's. Small-scope exhaustive (<=2 nodes quick, <=3 thorough, all 47 concrete operators) plus TLC "
             "-simulate to 5 nodes.",
        note="trusted: TLC, the level table in CExpr.tla as a reading of C99 6.5, the 60-line projection harness/proj.py"),
}

PENDING = {}


def build():
    props = [json.loads(l) for l in open(os.path.join(VERIF, "properties.jsonl"))]
    try:
        commits = subprocess.check_output(
            ["git", "-C", REPO, "log", "--format=%h %s", "--grep=^verif hooks"], text=True).strip().splitlines()
    except Exception:
        commits = []
    m = {
        "version": 1,
        "setup_cmd": "./check setup",
        "hooks": {
            "guard": GUARD,
            "enable": "environment variable PYCPARSER_VERIF=1 set before `import pycparser` (the checks set it themselves); "
                      "events flow only after pycparser._verif.set_sink(fn)",
            "baseline_off_cmd": "cd /repo && env -u PYCPARSER_VERIF /venv/bin/python -m pytest -ra -q -p no:cacheprovider --timeout=900 --continue-on-collection-errors",
            "source_commits": [c.split()[0] for c in commits],
            "add_only": True,
        },
        "engines": [
            {"name": "tlc", "path": "/opt/veriftools/tla/tla2tools.jar",
             "serves_properties": sorted(CHECKS),
             "kind_free_text": "TLC 1.8 explicit-state model checker: exhaustive BFS of the TLA+ specs in /verif/spec, -simulate beyond, batch trace validation"},
        ],
        "checks": [],
        "not_applicable": [],
        "notes": "Specification: /verif/spec/*.tla. Entry point ./check Cnn --tier quick|thorough. Exit 2 + MACHINERY-ERROR is a harness failure, never a violation.",
    }
    for p in props:
        pid = p["id"]
        if pid in CHECKS:
            c = CHECKS[pid]
            m["checks"].append({
                "property_id": pid,
                "quick_cmd": "./check %s --tier quick" % pid,
                "thorough_cmd": "./check %s --tier thorough" % pid,
                "evidence_file": "/verif/evidence/%s.json" % pid,
                "replay_cmd_template": "./check %s --replay {path}" % pid,
                "engine": "tlc",
                "level_claimed": {"category": c["category"], "text": c["text"], "design_ref": c["design_ref"]},
                "level_note": c["note"],
                "technique": c["technique"],
            })
        else:
            m["not_applicable"].append({"property_id": pid, "reason": PENDING.get(
                pid, "check not built yet in this session (planned: DESIGN.md section 5); not claimed until it is")})
    return m


def main():
    m = build()
    with open(os.path.join(VERIF, "MANIFEST.json"), "w") as f:
        json.dump(m, f, indent=1)
    print("MANIFEST.json: %d checks, %d not_applicable" % (len(m["checks"]), len(m["not_applicable"])))
    return 0
