"""Run checks against a BENIGN change (development tool, not part of any registered command).

usage: python -m harness.benignrun <name> <dir with patch.diff, meta.json> [checks...]   (default: all 19)
A benign change keeps every property true; every check must therefore stay silent (exit 0).  The patch is applied to a
fresh scratch worktree of /repo HEAD; /repo itself is never touched.  Results go to /verif/benign/<name>/."""
import json
import os
import shutil
import subprocess
import sys
import time

VERIF = os.path.dirname(os.path.dirname(os.path.abspath(__file__)))


def sh(cmd, env=None):
    return subprocess.run(cmd, shell=True, capture_output=True, text=True, env=env)


def main():
    name, src = sys.argv[1], sys.argv[2]
    checks = sys.argv[3:] or ["C%02d" % i for i in range(1, 20)]
    scratch = "/var/tmp/verif-scratch-benign-%s" % name
    sh("git -C /repo worktree remove --force %s" % scratch)
    r = sh("git -C /repo worktree add --detach %s HEAD" % scratch)
    if r.returncode:
        print(r.stderr)
        return 2
    out = json.load(open(os.path.join(src, "meta.json")))
    try:
        r = sh("git -C %s apply %s" % (scratch, os.path.join(src, "patch.diff")))
        if r.returncode:
            print("patch does not apply:", r.stderr[:300])
            return 2
        env = {k: v for k, v in os.environ.items() if k != "PYCPARSER_VERIF"}
        r = sh("cd %s && /venv/bin/python -m pytest -q -p no:cacheprovider 2>&1 | tail -1" % scratch, env=env)
        out["baseline_tests"] = r.stdout.strip()
        out["checks"] = {}
        prev = os.path.join(VERIF, "benign", name, "meta.json")
        if os.path.exists(prev):        # keep the results of earlier runs of other checks
            out["checks"] = json.load(open(prev)).get("checks", {})
        for c in checks:
            t0 = time.time()
            e = dict(os.environ, VERIF_REPO=scratch, VERIF_SEED=os.environ.get("VERIF_SEED", "0"))
            r = sh("cd %s && ./check %s --tier quick" % (VERIF, c), env=e)
            viol = [l for l in r.stdout.splitlines() if l.startswith("VIOLATION")]
            what = [l.strip() for l in r.stdout.splitlines() if l.strip().startswith("what:")]
            out["checks"][c] = dict(exit=r.returncode, violations=len(viol), first=what[:3],
                                    machinery=[l for l in r.stdout.splitlines() if l.startswith("MACHINERY")][:1],
                                    wall_s=round(time.time() - t0, 1))
            print(c, "exit", r.returncode, "violation lines", len(viol), (what[:1] or [""])[0][:200], flush=True)
        dst = os.path.join(VERIF, "benign", name)
        os.makedirs(dst, exist_ok=True)
        shutil.copy(os.path.join(src, "patch.diff"), os.path.join(dst, "patch.diff"))
        json.dump(out, open(os.path.join(dst, "meta.json"), "w"), indent=1)
    finally:
        sh("git -C /repo worktree remove --force %s" % scratch)
        shutil.rmtree(os.path.join(VERIF, "replays"), ignore_errors=True)
        os.makedirs(os.path.join(VERIF, "replays"), exist_ok=True)
    return 0


if __name__ == "__main__":
    sys.exit(main())
