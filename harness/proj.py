"""Projection of pycparser objects into the specification's vocabulary.

Reads the slots named by /repo/pycparser/_c_ast.cfg directly (not children()/attr_names), so
that C14 has an independent view.  `proj` gives nested dicts (spec -> code comparisons),
`flatten` a node table with ids by object identity (the matcher's constant).
"""
import os
from .common import REPO

NIL = "~"
# fields outside every property (DESIGN 2.2)
DROP = {("TypeDecl", "align"), ("Typename", "align")}

_CFG = None


def cfg():
    global _CFG
    if _CFG is None:
        d = {}
        for line in open(os.path.join(REPO, "pycparser", "_c_ast.cfg")):
            line = line.strip()
            if not line or line.startswith("#"):
                continue
            name, rest = line.split(":", 1)
            rest = rest.strip()[1:-1]
            d[name.strip()] = [x.strip() for x in rest.split(",") if x.strip()]
        _CFG = d
    return _CFG


def proj(n, coords=False):
    from pycparser import c_ast
    if n is None:
        return NIL
    if isinstance(n, (list, tuple)):
        return [proj(x, coords) for x in n]
    if isinstance(n, c_ast.Node):
        k = type(n).__name__
        d = {"k": k}
        for f in cfg().get(k, []):
            nm = f.rstrip("*")
            if (k, nm) in DROP:
                continue
            d[nm] = proj(getattr(n, nm), coords)
        if coords:
            c = n.coord
            d["coord"] = NIL if c is None else [c.file, c.line, c.column if c.column is not None else 0]
        return d
    if isinstance(n, (str, int, bool)):
        return n
    return repr(n)


def strip(v, keys=("par",)):
    """Remove bookkeeping fields the spec carries in its values."""
    if isinstance(v, dict):
        return {k: strip(x, keys) for k, x in v.items() if k not in keys}
    if isinstance(v, list):
        return [strip(x, keys) for x in v]
    return v


def diff(a, b, path=""):
    """First difference between two projected values, as a short string (or None)."""
    if type(a) != type(b):
        return "%s: %r vs %r" % (path or ".", _short(a), _short(b))
    if isinstance(a, dict):
        if a.get("k") != b.get("k"):
            return "%s: kind %s vs %s" % (path or ".", a.get("k"), b.get("k"))
        for k in sorted(set(a) | set(b)):
            if k not in a or k not in b:
                return "%s.%s: missing on one side" % (path, k)
            d = diff(a[k], b[k], path + "." + k)
            if d:
                return d
        return None
    if isinstance(a, list):
        if len(a) != len(b):
            return "%s: length %d vs %d" % (path or ".", len(a), len(b))
        for i, (x, y) in enumerate(zip(a, b)):
            d = diff(x, y, "%s[%d]" % (path, i))
            if d:
                return d
        return None
    if a != b:
        return "%s: %r vs %r" % (path or ".", a, b)
    return None


def _short(v):
    s = repr(v)
    return s if len(s) < 80 else s[:77] + "..."


def flatten(root):
    """Node table for the matcher: list of records (1-based ids), children by id, 0 = absent.
    Shared objects appear once (ids by identity)."""
    from pycparser import c_ast
    nodes = []
    ids = {}

    def go(n):
        if n is None:
            return 0
        if id(n) in ids:
            return ids[id(n)]
        k = type(n).__name__
        rec = {"k": k}
        nodes.append(rec)
        my = len(nodes)
        ids[id(n)] = my
        ch = {}
        for f in cfg()[k]:
            nm = f.rstrip("*")
            v = getattr(n, nm)
            if f.endswith("**"):
                ch[nm] = [go(x) for x in (v or [])]
                rec["has_" + nm] = v is not None
            elif f.endswith("*"):
                ch[nm] = go(v)
            else:
                if nm == "align" and isinstance(v, list):
                    ch["align"] = [go(x) for x in v]
                elif isinstance(v, c_ast.Node):
                    ch[nm] = go(v)
                    rec[nm] = ""
                elif v is None:
                    rec[nm] = ""
                elif isinstance(v, list):
                    rec[nm] = [str(x) for x in v]
                else:
                    rec[nm] = str(v)
        if k in ("TypeDecl", "Typename", "Decl"):
            ch.setdefault("align", [])
        rec["c"] = ch
        c = n.coord
        rec["coord"] = [str(c.file), int(c.line), int(c.column or 0)] if c is not None and hasattr(c, "line") else []
        return my

    r = go(root)
    return nodes, r
