"""Record CParser.parse() calls through the hooks and validate them against
spec/ParserTrace.tla (code -> spec)."""
import json
import os
import threading

from . import common
from .common import tlc, tlc_ok, workdir, rmtree


class Recorder:
    """Collects raw hook events.  Use as a context manager."""

    def __init__(self):
        self.events = []

    def __enter__(self):
        from pycparser import _verif
        self._prev = _verif.SINK
        _verif.set_sink(self.events.append)
        return self

    def __exit__(self, *a):
        from pycparser import _verif
        _verif.set_sink(self._prev)


def assemble(events, texts=None):
    """Split raw events into per-parse traces (in order of parse.call).  texts: optional map
    parser-id -> list of texts in call order (needed because events only carry lengths)."""
    parses = []
    open_by_parser = {}
    lex_owner = {}
    ts_owner = {}
    pending_errs = {}
    for ev in events:
        e = ev["e"]
        if e == "parse.call":
            tr = dict(parser=ev["i"], lex=ev["lex"], file=ev["file"], n=ev["n"], ev=[], done=False)
            parses.append(tr)
            open_by_parser[ev["i"]] = tr
            lex_owner[ev["lex"]] = tr
            pending_errs[ev["lex"]] = []
            continue
        if e == "parse.end":
            tr = open_by_parser.pop(ev["i"], None)
            if tr is not None:
                tr["ev"].append(dict(e="end", ok=ev["ok"], exc=ev["exc"] or "", msg=ev["msg"] or "",
                                     depth=ev["depth"], bl=ev["bl"], ix=ev["ix"]))
                tr["done"] = True
                lex_owner.pop(tr["lex"], None)
            continue
        if e == "lex.input":
            tr = lex_owner.get(ev["i"])
            if tr is not None:
                st = dict(ev["st"])
                st["pend"] = st["pend"] or []
                tr["ev"].append(dict(e="begin", st=st))
            continue
        if e == "ts.new":
            tr = lex_owner.get(ev["lex"])
            if tr is not None:
                ts_owner[ev["i"]] = tr
            continue
        if e == "lex.error":
            if ev["i"] in pending_errs:
                pending_errs[ev["i"]].append(ev["at"])
            continue
        if e == "lex.token":
            tr = lex_owner.get(ev["i"])
            if tr is not None:
                st = dict(ev["st"])
                st["pend"] = st["pend"] or []
                tr["ev"].append(dict(e="tok", tok=ev["tok"] or [], st=st, errs=pending_errs.get(ev["i"], [])[:],
                                     exc=ev["exc"] or ""))
                pending_errs[ev["i"]] = []
            continue
        if e.startswith("scope."):
            tr = open_by_parser.get(ev["i"])
            if tr is None:
                continue
            if e == "scope.push":
                tr["ev"].append(dict(e="push", d=ev["d"]))
            elif e == "scope.pop":
                tr["ev"].append(dict(e="pop", d=ev["d"], raised=ev["raised"]))
            elif e == "scope.look":
                if not ev.get("raised"):
                    tr["ev"].append(dict(e="look", name=ev["name"], ans=bool(ev["ans"])))
            elif e == "scope.reg":
                tr["ev"].append(dict(e="reg", name=ev["name"], t=ev["t"], d=ev["d"], bl=ev["bl"], ix=ev["ix"],
                                     raised=ev["raised"]))
            continue
        if e in ("ts.next", "ts.reset"):
            tr = ts_owner.get(ev["i"])
            if tr is None or tr["done"] or ev.get("raised"):
                continue
            if e == "ts.next":
                tr["ev"].append(dict(e="next", ix=ev["ix"]))
            else:
                tr["ev"].append(dict(e="reset", frm=ev["frm"], to=ev["to"]))
            continue
    return parses


def record(text, filename="x.c", parser=None):
    """Parse `text` under tracing.  Returns (trace dict ready for ParserTrace, ast or None, exception or None)."""
    from pycparser import c_parser
    p = parser or c_parser.CParser()
    ast = exc = None
    with Recorder() as rec:
        try:
            ast = p.parse(text, filename)
        except BaseException as e:  # noqa
            exc = e
    trs = [t for t in assemble(rec.events) if t["parser"] == id(p)]
    tr = trs[-1]
    return dict(text=text, file=filename, ev=tr["ev"]), ast, exc


def ascii_ok(text):
    return all((32 <= ord(c) < 127) or c in "\n\t" for c in text)


def validate(traces, label, R=8, workers=8, diag=False, maxuse=False):
    wd = workdir("ptr")
    try:
        p = os.path.join(wd, "traces.json")
        with open(p, "w") as f:
            json.dump(traces, f)
        cfg = ("CONSTANT R = %d\nINIT PInit\nNEXT PNext\nINVARIANT Acc\n" % R
               + ("INVARIANT Diag\n" if diag else "") + ("INVARIANT MaxUse\n" if maxuse else "")
               + "CHECK_DEADLOCK FALSE\n")
        res = tlc("ParserTrace", cfg, wd=wd, env=dict(TRACES=p), workers=workers, xss="512m", timeout=3000)
        tlc_ok(res, "ParserTrace " + label)
        return res.acc, res
    finally:
        rmtree(wd)


def explain(trace, R=8):
    acc, res = validate([trace], "diag", R=R, workers=1, diag=True)
    deepest = 0
    for n in res.notes:
        if n.startswith('<<"AT"'):
            parts = n.strip("<>").split(", ")
            deepest = max(deepest, int(parts[2]))
    ev = trace["ev"]
    nxt = ev[deepest - 1] if 0 < deepest <= len(ev) else None
    prev = ev[max(0, deepest - 4):deepest - 1]
    return "rejected at event %d/%d: next logged event %s; preceding %s" % (
        deepest, len(ev), json.dumps(nxt)[:300], json.dumps(prev)[:400])


def max_uses(res):
    out = {}
    for n in res.notes:
        if n.startswith('<<"USES"'):
            parts = n.strip("<>").split(", ")
            out[int(parts[1])] = int(parts[2])
    return out
