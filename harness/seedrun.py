"""Confirm a seeded change and run checks against it (development tool, not part of any registered command).

usage: /venv/bin/python -m harness.seedrun <name> <dir-with-patch.diff,demo.py,meta.json> [checks...]

1. fresh scratch worktree of /repo HEAD outside /repo and /verif, patch applied;
2. baseline tests there (guard off) must still pass;
3. demo.py must exit 0 on /repo and non-zero on the patched tree;
4. each named check (default: the property in meta.json) is run with VERIF_REPO=<scratch>;
5. results are written to /verif/seeded/<name>/ ; the scratch worktree is removed.
"""
import json
import os
import shutil
import subprocess
import sys
import time

VERIF = os.path.dirname(os.path.dirname(os.path.abspath(__file__)))


def sh(cmd, **kw):
    return subprocess.run(cmd, shell=True, capture_output=True, text=True, **kw)


def main():
    name, src = sys.argv[1], sys.argv[2]
    meta = json.load(open(os.path.join(src, "meta.json")))
    checks = sys.argv[3:] or [meta["property"]]
    scratch = "/var/tmp/verif-scratch-seed-%s" % name
    sh("git -C /repo worktree remove --force %s" % scratch)
    r = sh("git -C /repo worktree add -q --detach %s HEAD" % scratch)
    if r.returncode:
        print("cannot create worktree:", r.stderr)
        return 2
    out = dict(meta)
    try:
        r = sh("git -C %s apply %s" % (scratch, os.path.join(src, "patch.diff")))
        out["applies"] = r.returncode == 0
        if r.returncode:
            print("patch does not apply:", r.stderr[:300])
            return 2
        env = {k: v for k, v in os.environ.items() if k != "PYCPARSER_VERIF"}
        r = sh("cd %s && /venv/bin/python -m pytest -q -p no:cacheprovider 2>&1 | tail -1" % scratch, env=env)
        out["baseline_tests"] = r.stdout.strip()
        r0 = sh("/venv/bin/python %s /repo" % os.path.join(src, "demo.py"), env=env)
        r1 = sh("/venv/bin/python %s %s" % (os.path.join(src, "demo.py"), scratch), env=env)
        out["demo_exit_on_repo"] = r0.returncode
        out["demo_exit_on_patched"] = r1.returncode
        out["demo_output_on_patched"] = (r1.stdout + r1.stderr)[-400:]
        out["checks"] = {}
        for c in checks:
            t0 = time.time()
            e = dict(os.environ, VERIF_REPO=scratch, VERIF_SEED=os.environ.get("VERIF_SEED", "0"))
            r = sh("cd %s && ./check %s --tier quick" % (VERIF, c), env=e)
            viol = [l for l in r.stdout.splitlines() if l.startswith("VIOLATION")]
            what = [l.strip() for l in r.stdout.splitlines() if l.strip().startswith("what:")]
            out["checks"][c] = dict(exit=r.returncode, violations=len(viol), first=what[:2],
                                    machinery=[l for l in r.stdout.splitlines() if l.startswith("MACHINERY")][:1],
                                    wall_s=round(time.time() - t0, 1))
            print(c, "exit", r.returncode, "violation lines", len(viol), (what[:1] or [""])[0][:160])
        dst = os.path.join(VERIF, "seeded", name)
        os.makedirs(dst, exist_ok=True)
        for f in ("patch.diff", "demo.py"):
            if os.path.realpath(src) != os.path.realpath(dst):
                shutil.copy(os.path.join(src, f), os.path.join(dst, f))
        out["ran"] = "harness.seedrun %s (scratch worktree of /repo HEAD %s, patch applied, checks run with VERIF_REPO)" % (
            " ".join(checks), sh("git -C /repo rev-parse --short HEAD").stdout.strip())
        json.dump(out, open(os.path.join(dst, "meta.json"), "w"), indent=1)
        print(json.dumps({k: out[k] for k in ("baseline_tests", "demo_exit_on_repo", "demo_exit_on_patched")}))
    finally:
        sh("git -C /repo worktree remove --force %s" % scratch)
        shutil.rmtree(os.path.join(VERIF, "replays"), ignore_errors=True)
        os.makedirs(os.path.join(VERIF, "replays"), exist_ok=True)
    return 0


if __name__ == "__main__":
    sys.exit(main())
