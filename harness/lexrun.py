"""Drive the real CLexer and record, per token() call, the token and the cursor state
(through the lex.token / lex.error hooks)."""
from . import common  # noqa: F401  (sets PYCPARSER_VERIF, sys.path)


def lex_trace(text, filename="f.c", types=(), max_calls=None):
    """Returns dict(calls=[{tok, st, errs:[at..]}], errors=[(msg, line, col, at)], ok).
    The error callback does not raise, so lexing continues after errors."""
    from pycparser import c_lexer, _verif
    calls = []
    cur_errs = []
    errors = []

    def sink(ev):
        e = ev["e"]
        if e == "lex.error":
            cur_errs.append(ev["at"])
        elif e == "lex.token":
            calls.append(dict(tok=ev["tok"], st=ev["st"], errs=list(cur_errs), exc=ev["exc"]))
            del cur_errs[:]

    def on_err(msg, line, col):
        errors.append((msg, line, col))

    tset = set(types)
    lx = c_lexer.CLexer(on_err, lambda: None, lambda: None, lambda n: n in tset)
    prev = _verif.SINK
    _verif.set_sink(sink)
    try:
        lx.input(text, filename)
        limit = max_calls or (len(text) + 3)
        n = 0
        while True:
            t = lx.token()
            n += 1
            if t is None:
                return dict(calls=calls, errors=errors, terminated=True)
            if n > limit:
                return dict(calls=calls, errors=errors, terminated=False)
    finally:
        _verif.set_sink(prev)


def compare_with_spec(exp, got):
    """exp: exported CLex state {text, out, err, st, phase}; got: lex_trace result.
    Returns None or a short description of the disagreement."""
    if not got["terminated"]:
        return "no termination within len+3 calls"
    calls = got["calls"]
    # progress at every call
    ppos, ppend = 0, None
    for i, c in enumerate(calls):
        st = c["st"]
        if not (st["pos"] > ppos or st["pend"] != ppend or c["tok"] is None):
            return "call %d made no progress (pos %d)" % (i, st["pos"])
        ppos, ppend = st["pos"], st["pend"]
    toks = []          # tokens returned before the first error
    first_err = None
    for c in calls:
        if c["errs"]:
            first_err = c["errs"][0]
            break
        if c["tok"] is None:
            break
        toks.append(c["tok"])
    want = [[t["ty"], t["val"], t["line"], t["col"]] for t in exp["out"]]
    if exp["phase"] == "done":
        if first_err is not None:
            return "spurious error at offset %d; spec tokens %s" % (first_err, [w[0] for w in want])
        if toks != want:
            return "tokens differ: spec %s impl %s" % (want, toks)
        last = calls[-1]["st"]
        e = exp["st"]
        g = [last["pos"], last["line"], last["lstart"], last["file"], last["pend"] or []]
        w = [e["pos"], e["line"], e["lstart"], e["file"], e["pend"]]
        if g != w:
            return "final cursor differs: spec %s impl %s" % (w, g)
        return None
    # spec reports an error in exp["err"] = [lo, hi]
    if first_err is None:
        return "malformed input not reported: spec expects an error in %s, impl tokens %s" % (
            exp["err"], [t[:2] for t in toks])
    if toks[:len(want)] != want or len(toks) != len(want):
        return "tokens before the first error differ: spec %s impl %s" % (want, toks)
    lo, hi = exp["err"]
    if not (lo <= first_err <= hi):
        return "error reported at offset %d, spec expects %d..%d" % (first_err, lo, hi)
    return None
