"""Session.ParseEnd as observed: classify what CParser.parse did with a text."""
import re

from . import common  # noqa

_LOC = re.compile(r"^(?P<file>[^:\n]*)(?::(?P<line>\d+):(?P<col>\d+))?: ")


def token_positions(text, filename):
    """(line, col) of every token start and of every lexer error, by the real lexer run alone."""
    from pycparser import c_lexer
    pos = set()

    def on_err(msg, line, col):
        pos.add((line, col))

    lx = c_lexer.CLexer(on_err, lambda: None, lambda: None, lambda n: False)
    lx.input(text, filename)
    n = 0
    while True:
        t = lx.token()
        if t is None:
            break
        pos.add((t.lineno, t.column))
        n += 1
        if n > len(text) + 3:
            break
    return pos


def classify(text, filename="f.c", check_loc=True):
    """Returns (kind, detail): kind in ok | ParseError | RecursionError | bad:<why>."""
    from pycparser import c_parser
    try:
        ast = c_parser.CParser().parse(text, filename)
    except c_parser.ParseError as e:
        msg = str(e)
        m = _LOC.match(msg)
        if not m or m.group("file") != filename:
            return "bad:location-prefix", "ParseError message %r does not start with '%s:line:col: ' or '%s: '" % (
                msg[:80], filename, filename)
        if check_loc and m.group("line") is not None:
            lc = (int(m.group("line")), int(m.group("col")))
            if lc not in token_positions(text, filename):
                return "bad:location-not-a-token", "ParseError location %s:%s is not a token start (%r)" % (
                    lc[0], lc[1], msg[:80])
        return "ParseError", msg
    except RecursionError:
        return "RecursionError", ""
    except Exception as e:  # noqa
        return "bad:exception", "%s: %s" % (type(e).__name__, str(e)[:100])
    from pycparser import c_ast
    if not isinstance(ast, c_ast.FileAST):
        return "bad:result-type", type(ast).__name__
    return "ok", ""
