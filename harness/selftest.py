"""./check selftest - demonstrates that the trace specifications are bound to the code (development command, not
part of any registered quick / thorough command).

For each trace specification a trace is recorded from the real code on a canary program and must be ACCEPTED; then
one recorded field is corrupted, or one event is dropped, and the result must be REJECTED.  A specification that
accepted the corrupted traces would constrain nothing.  (The other half of the demonstration - real faults in the
code are reported by the designated check - is `harness/seedall.sh` over /verif/seeded.)"""
import copy
import json
import random

from . import common
from . import ptrace, matcher, gentrace
from .checks import lextrace, c14

CANARY = ("typedef int T; struct S { T a; int b : 2; };\n# 7 \"inc.h\"\nint f(T x) { T * p = &x; if (x) { int T; T = 1; } "
          "switch (x) { case 1: x++; default: break; }\n#pragma omp q\n return sizeof(T) + (T)x; }\n")


def _expect(label, accepted, want, out):
    ok = accepted == want
    out.append(ok)
    print("  %-64s %s" % (label, "ok" if ok else "UNEXPECTED (%s)" % ("accepted" if accepted else "rejected")))


def main():
    out = []
    rnd = random.Random(1)

    print("CLexTrace (recorded CLexer.token() calls)")
    tr, got = lextrace.to_trace(CANARY, "c.c", {"T"})
    variants = [("recorded trace", tr, True)]
    t2 = copy.deepcopy(tr)
    t2["ev"][5]["tok"][3] += 1
    variants.append(("column of token 6 changed by one", t2, False))
    t3 = copy.deepcopy(tr)
    del t3["ev"][4]
    variants.append(("call 5 dropped", t3, False))
    t4 = copy.deepcopy(tr)
    k = next(i for i, e in enumerate(t4["ev"]) if e["st"]["file"] == "inc.h")
    t4["ev"][k]["st"]["file"] = "c.c"
    variants.append(("file name after the linemarker not updated", t4, False))
    t5 = copy.deepcopy(tr)
    k = next(i for i, e in enumerate(t5["ev"]) if e["tok"] and e["tok"][0] == "TYPEID")
    t5["ev"][k]["tok"][0] = "ID"
    variants.append(("a TYPEID reported as ID", t5, False))
    acc, _ = lextrace.validate([v[1] for v in variants], "selftest", workers=2)
    for i, (label, _, want) in enumerate(variants, 1):
        _expect(label, i in acc, want, out)

    print("ParserTrace (parse(), token stream, scope table, lexer cursor)")
    tr, ast, exc = ptrace.record(CANARY, "c.c")
    if ast is None:
        raise common.MachineryError("canary does not parse: %s" % exc)
    variants = [("recorded trace", tr, True)]
    t2 = copy.deepcopy(tr)
    k = next(i for i, e in enumerate(t2["ev"]) if e["e"] == "look" and e.get("ans") is True)
    t2["ev"][k]["ans"] = False
    variants.append(("a type-name lookup answered the other way", t2, False))
    t3 = copy.deepcopy(tr)
    k = next(i for i, e in enumerate(t3["ev"]) if e["e"] == "pop")
    del t3["ev"][k]
    variants.append(("one scope pop dropped", t3, False))
    t4 = copy.deepcopy(tr)
    k = next(i for i, e in enumerate(t4["ev"]) if e["e"] == "reg" and e["name"] == "T" and not e["t"])
    t4["ev"][k]["t"] = True
    variants.append(("object T registered as a typedef", t4, False))
    t5 = copy.deepcopy(tr)
    k = max(i for i, e in enumerate(t5["ev"]) if e["e"] == "next")
    del t5["ev"][k]
    variants.append(("last token consumption dropped (not all input consumed)", t5, False))
    acc, _ = ptrace.validate([v[1] for v in variants], "selftest", R=64, workers=2)
    for i, (label, _, want) in enumerate(variants, 1):
        _expect(label, i in acc, want, out)

    print("FrontTrace (tokens + AST: the AST-guided matcher)")
    tk, ast, exc = matcher.parse_with_tokens(CANARY, "c.c")
    case = matcher.case_of(tk, ast)
    variants = [("recorded (tokens, AST)", case, True)]
    c2 = copy.deepcopy(case)
    k = next(i for i, n in enumerate(c2["nodes"]) if n["k"] == "BinaryOp")
    c2["nodes"][k]["op"] = "-"
    variants.append(("operator of a BinaryOp changed in the AST", c2, False))
    c3 = copy.deepcopy(case)
    k = next(i for i, t in enumerate(c3["toks"]) if t[1] == "break")
    del c3["toks"][k]
    variants.append(("token 'break' dropped", c3, False))
    c4 = copy.deepcopy(case)
    k = next(i for i, n in enumerate(c4["nodes"]) if n["k"] == "Constant")
    c4["nodes"][k]["coord"][2] += 3
    variants.append(("coordinate of a Constant moved by three columns", c4, False))
    acc, coords, _ = matcher.validate([v[1] for v in variants], "selftest", check_coords=True, workers=2)
    for i, (label, _, want) in enumerate(variants, 1):
        # (a bad coordinate does not stop the matcher: it is reported as a COORD note for that trace)
        _expect(label, i in acc and i not in coords, want, out)

    print("Traversal (NodeVisitor.visit events)")
    table = {c["name"]: c["fields"] for c in c14.class_table()}
    tr, _, _ = c14.traversal_trace(ast, table, stop=("If",))
    variants = [("recorded visits", tr, True)]
    t2 = copy.deepcopy(tr)
    t2["visits"][3], t2["visits"][4] = t2["visits"][4], t2["visits"][3]
    variants.append(("two visits swapped", t2, False))
    t3 = copy.deepcopy(tr)
    t3["stop"] = []
    variants.append(("interception by visit_If not declared", t3, False))
    t4 = copy.deepcopy(tr)
    t4["visits"].append(t4["visits"][-1])
    variants.append(("a node visited twice", t4, False))
    import os
    from .common import tlc, tlc_ok, workdir, rmtree
    wd = workdir("selft")
    try:
        p = os.path.join(wd, "traces.json")
        json.dump([v[1] for v in variants], open(p, "w"))
        res = tlc("Traversal", "INIT TInit\nNEXT TNext\nINVARIANT Acc\nCHECK_DEADLOCK FALSE\n", wd=wd, env=dict(TRACES=p), workers=2,
                  xss="256m")
        tlc_ok(res, "Traversal selftest")
    finally:
        rmtree(wd)
    for i, (label, _, want) in enumerate(variants, 1):
        _expect(label, i in res.acc, want, out)

    print("GenTrace (CGenerator indentation events)")
    from pycparser import c_generator
    tr, outs = gentrace.record(c_generator.CGenerator(), [ast, ast.ext[2], ast.ext[1]])
    variants = [("recorded events of three visits with one generator", tr, True)]
    t2 = copy.deepcopy(tr)
    k = next(i for i, e in enumerate(t2["ev"]) if e["e"] == "block")
    t2["ev"][k]["ind1"] += 2
    variants.append(("a block that does not restore its indentation", t2, False))
    t3 = copy.deepcopy(tr)
    k = max(i for i, e in enumerate(t3["ev"]) if e["e"] == "enter")
    t3["ev"][k]["ind"] = 2
    variants.append(("a reused generator starting a visit at level 2", t3, False))
    t4 = copy.deepcopy(tr)
    k = next(i for i, e in enumerate(t4["ev"]) if e["e"] == "leave")
    del t4["ev"][k]
    variants.append(("a leave event dropped", t4, False))
    acc, _, _ = gentrace.validate([v[1] for v in variants], "selftest")
    for i, (label, _, want) in enumerate(variants, 1):
        _expect(label, i in acc, want, out)

    print("%d of %d expectations met" % (sum(out), len(out)))
    return 0 if all(out) else 1
