----------------------------- MODULE AstSchema -----------------------------
(* The declarative AST specification (_c_ast.cfg) and what its header promises (C14).

   `Classes` is generated at check time from /repo/pycparser/_c_ast.cfg: a sequence of
   [name, fields], each field [n, k] with k = "attr" (plain value), "child" (one star in the cfg) or
   "seq" (two stars).  The semantics the cfg header states:
     InitOrder(c)   constructor parameters: the fields in declared order, then coord
     AttrNames(c)   the attr fields in declared order
     Children(c,v)  node-valued fields: single children first in declared order, then the
                    sequences in declared order with indexed names "f[i]"; absent ones
                    (a child that is None, a sequence that is None or empty) are skipped
   TLC enumerates, for every class, every assignment of {absent, present} to its child fields
   and {None, 0, 1, 2 elements} to its sequence fields and exports the expected children list;
   the harness builds the real object with sentinel values and compares constructor order,
   attr_names, children(), iteration and the line count of show().                          *)
EXTENDS Naturals, Sequences, TLC, FiniteSets, Json

CONSTANT Classes
VARIABLES ci, i, val      \* class index, next field to decide, decided values (one per field)
vars == <<ci, i, val>>

C == Classes[ci]
F(j) == C.fields[j]
NF == Len(C.fields)

Init == ci \in 1..Len(Classes) /\ i = 1 /\ val = <<>>
\* attr: the value is a sentinel; child: 0 = None, 1 = a node; seq: 0 = None, 1 = [], 2 = [n], 3 = [n, n]
Decide == /\ i <= NF
          /\ \E v \in (IF F(i).k = "attr" THEN {1} ELSE IF F(i).k = "child" THEN {0, 1} ELSE {0, 1, 2, 3}) :
               val' = Append(val, v)
          /\ i' = i + 1 /\ UNCHANGED ci
Next == Decide
Spec == Init /\ [][Next]_vars

InitOrder == [j \in 1..NF |-> F(j).n] \o <<"coord">>
AttrNames == SelectSeq([j \in 1..NF |-> F(j).n], LAMBDA x : \E j \in 1..NF : F(j).n = x /\ F(j).k = "attr")
RECURSIVE Singles(_), Seqs(_)
Singles(j) == IF j > NF THEN <<>>
              ELSE (IF F(j).k = "child" /\ val[j] = 1 THEN << F(j).n >> ELSE <<>>) \o Singles(j+1)
Idx(nm, cnt) == [q \in 1..cnt |-> nm \o "[" \o ToString(q-1) \o "]"]
Seqs(j) == IF j > NF THEN <<>>
           ELSE (IF F(j).k = "seq" /\ val[j] >= 2 THEN Idx(F(j).n, val[j] - 1) ELSE <<>>) \o Seqs(j+1)
Children == Singles(1) \o Seqs(1)

Complete == i = NF + 1
\* every name occurs once; singles come before sequences
ChildrenWellFormed ==
  Complete => /\ \A a, b \in 1..Len(Children) : a # b => Children[a] # Children[b]
              /\ Len(Children) <= 2 * NF + 2
Export == Complete => PrintT("@@" \o ToJson([cls |-> C.name, val |-> val, init |-> InitOrder, attrs |-> AttrNames,
                                              children |-> Children]))
=============================================================================
