----------------------------- MODULE ScopeImpl -----------------------------
(* Why the parser may not read ahead of a declaration: the design of pycparser's typedef
   handling as a two-process protocol (C04).

   The LEXER classifies an identifier token as type name / ordinary identifier at the moment it
   is lexed, by asking the scope table, and pushes / pops a scope when it lexes a brace.  The
   PARSER consumes tokens behind it and registers a declared name when the declaration is
   reduced, i.e. when its terminating ';' has been reached.  The lexer may run up to K tokens
   ahead of the parser.

   Program alphabet (the sub-language on which the mechanism is meant to be exact: no
   initializers, no for-init, no enumerators, no K&R lists):
       typedef int n ;      int n ;      n (a use, e.g. the start of "n * x;")      {      }

   Truth (C99 6.2.1): a use of n is a type name iff the innermost enclosing block that declares
   n before the use declares it by typedef.

   TLC explores every interleaving of Lex and Parse steps for every program up to MaxToks
   tokens and checks  ClassCorrect: every classified use has the class the standard gives it.
     * Discipline = FALSE, K >= 2 : violated - the classic counterexample  typedef int T ; T ...
       where the use of T is lexed before the typedef is reduced (expected; this config is the
       vacuity guard of the module);
     * Discipline = TRUE : holds for every K - the parser never asks for a token beyond the
       terminator of a declaration before it has registered that declaration, and never lets a
       '}' be lexed while a registration of the closing block is outstanding.
   On the real code the discipline is the trace invariant LookaheadSafe of ParserTrace.      *)
EXTENDS Naturals, Sequences, TLC, FiniteSets

CONSTANTS Names, MaxToks, K, Discipline

VARIABLES prog,   \* the token sequence (built first, then frozen)
          phase,  \* "build" | "run"
          lx,     \* tokens lexed
          px,     \* tokens consumed by the parser
          stk,    \* scope table as the lexer/parser maintain it: sequence of [Names -> {"none","type","ord"}]
          cls,    \* cls[i] = class given to the use token i when it was lexed ("none" if not a use / not lexed)
          regd    \* set of indices of ';' tokens whose declaration has been registered
vars == <<prog, phase, lx, px, stk, cls, regd>>

Empty == [n \in Names |-> "none"]
Tok(k, n) == [k |-> k, n |-> n]
\* a declaration is three tokens: keyword, name, semicolon; the keyword token carries the kind
Items == { <<Tok("td", n), Tok("name", n), Tok("semi", n)>> : n \in Names }
    \cup { <<Tok("obj", n), Tok("name", n), Tok("semi", n)>> : n \in Names }
    \cup { <<Tok("use", n)>> : n \in Names }
    \cup { <<Tok("lb", "")>>, <<Tok("rb", "")>> }

Depth(p)  == Cardinality({ i \in 1..Len(p) : p[i].k = "lb" })
Closes(p) == Cardinality({ i \in 1..Len(p) : p[i].k = "rb" })

Init == prog = <<>> /\ phase = "build" /\ lx = 0 /\ px = 0 /\ stk = <<Empty>> /\ cls = <<>> /\ regd = {}
Grow == /\ phase = "build"
        /\ \E it \in Items :
             /\ Len(prog) + Len(it) <= MaxToks
             /\ (it[1].k = "rb" => Depth(prog) > Closes(prog))          \* braces never close below file scope
             /\ prog' = prog \o it
        /\ UNCHANGED <<phase, lx, px, stk, cls, regd>>
Start == phase = "build" /\ prog # <<>> /\ phase' = "run" /\ cls' = [i \in 1..Len(prog) |-> "none"]
         /\ UNCHANGED <<prog, lx, px, stk, regd>>

RECURSIVE Lookup(_, _, _)
Lookup(s, i, n) == IF i = 0 THEN "none" ELSE IF s[i][n] # "none" THEN s[i][n] ELSE Lookup(s, i-1, n)

\* the ';' tokens before position j (exclusive) whose declaration is not yet registered
Outstanding(j) == { i \in 1..(j-1) : prog[i].k = "semi" /\ i \notin regd }

Lex == /\ phase = "run" /\ lx < Len(prog) /\ lx - px < K
       /\ LET i == lx + 1  t == prog[i] IN
          \* the discipline: no token beyond the terminator of an unregistered declaration
          /\ (Discipline => Outstanding(i) = {})
          /\ lx' = i
          /\ CASE t.k = "lb" -> stk' = Append(stk, Empty) /\ UNCHANGED cls
               [] t.k = "rb" -> stk' = SubSeq(stk, 1, Len(stk) - 1) /\ UNCHANGED cls
               [] t.k = "use" -> cls' = [cls EXCEPT ![i] = IF Lookup(stk, Len(stk), t.n) = "type" THEN "type" ELSE "ord"]
                                 /\ UNCHANGED stk
               [] OTHER -> UNCHANGED <<stk, cls>>
       /\ UNCHANGED <<prog, phase, px, regd>>

\* the parser consumes a token; reaching the ';' of a declaration it registers the name in the scope
\* that is current *now* (the lexer's stack top - which is the point of the model)
Parse == /\ phase = "run" /\ px < lx
         /\ LET i == px + 1  t == prog[i] IN
            /\ px' = i
            /\ IF t.k = "semi"
               THEN /\ regd' = regd \cup {i}
                    /\ stk' = [stk EXCEPT ![Len(stk)] = [@ EXCEPT ![t.n] = IF prog[i-2].k = "td" THEN "type" ELSE "ord"]]
               ELSE UNCHANGED <<regd, stk>>
         /\ UNCHANGED <<prog, phase, lx, cls>>
Next == Grow \/ Start \/ Lex \/ Parse
Spec == Init /\ [][Next]_vars

\* ---- the truth, from the token sequence alone (6.2.1): scan the tokens before the use
\* the scope stack the *standard* sees just after token j: a name is in scope from the end of its declarator
RECURSIVE TrueStk(_)
TrueStk(j) == IF j = 0 THEN <<Empty>>
              ELSE LET s == TrueStk(j-1)  t == prog[j] IN
                   CASE t.k = "lb" -> Append(s, Empty)
                     [] t.k = "rb" -> SubSeq(s, 1, Len(s) - 1)
                     [] t.k = "name" -> [s EXCEPT ![Len(s)] = [@ EXCEPT ![t.n] = IF prog[j-1].k = "td" THEN "type" ELSE "ord"]]
                     [] OTHER -> s
Truth(i) == IF Lookup(TrueStk(i-1), Len(TrueStk(i-1)), prog[i].n) = "type" THEN "type" ELSE "ord"

ClassCorrect == phase = "run" => \A i \in 1..lx : (prog[i].k = "use" /\ cls[i] # "none") => cls[i] = Truth(i)
\* the mechanism's table equals the truth whenever the parser has caught up with the lexer
\* (and no declaration is in flight: the standard binds at the declarator, the mechanism at the ';')
TableCorrect == (phase = "run" /\ px = lx /\ (IF lx = 0 THEN TRUE ELSE prog[lx].k \notin {"td", "obj", "name"}))
                   => stk = TrueStk(lx)
=============================================================================
