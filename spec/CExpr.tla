------------------------------- MODULE CExpr -------------------------------
(* C99 6.5 (expressions) as a leftmost-derivation pushdown transducer.

   A complete state (stack = <<>>) is a pair (token sequence, AST the C grammar assigns to
   it in pycparser's node vocabulary).  The grammar is the level table of 6.5.1-6.5.17:
     1 expression (comma)   2 assignment   3 conditional   4 ||  5 &&  6 |  7 ^  8 &
     9 == !=   10 < > <= >=   11 << >>   12 + -   13 * / %   14 cast   15 unary
     16 postfix   17 primary
   Chain productions are collapsed: a hole N(m) accepts any production of level >= m
   directly, and any production at all inside a parenthesis pair.

   Modes: "min"  parentheses exactly where the table demands them,
          "full" every operand parenthesised,
          "red"  any operand may carry one redundant pair (nondeterministic).
   The only visible trace of a pair of parentheses (6.5.1p5 + pycparser's flattening of the
   comma operator): a parenthesised comma expression that is itself an operand of a comma
   expression stays a nested ExprList.                                                    *)
EXTENDS Integers, Sequences, TLC, FiniteSets, Json

CONSTANTS MaxOps,     \* bound on the number of operator nodes
          Modes,      \* subset of {"min","full","red"}
          Concrete,   \* TRUE: every concrete operator; FALSE: one representative per class
          BinOnly     \* TRUE: binary operators only (one per level): flat chains of 4-5 operators in every tree shape

VARIABLES stack, toks, vals, ops, nleaf, mode, rl
vars == <<stack, toks, vals, ops, nleaf, mode, rl>>

Nil == "~"

BinLevel(op) == CASE op = "||" -> 4 [] op = "&&" -> 5 [] op = "|" -> 6 [] op = "^" -> 7 [] op = "&" -> 8
   [] op \in {"==","!="} -> 9 [] op \in {"<",">","<=",">="} -> 10 [] op \in {"<<",">>"} -> 11
   [] op \in {"+","-"} -> 12 [] op \in {"*","/","%"} -> 13
AllBin == {"||","&&","|","^","&","==","!=","<",">","<=",">=","<<",">>","+","-","*","/","%"}
RepBin == {"||","&&","|","^","&","==","<","<<","-","*"}
AllAsg == {"=","*=","/=","%=","+=","-=","<<=",">>=","&=","^=","|="}
RepAsg == {"=", "-="}
AllPre == {"&","*","+","-","~","!"}
RepPre == {"*", "-"}
IncDec == {"++","--"}
RepIncDec == {"++"}

BinOps == IF Concrete THEN AllBin ELSE RepBin
AsgOps == IF Concrete THEN AllAsg ELSE RepAsg
PreOps == IF Concrete THEN AllPre ELSE RepPre
IncOps == IF Concrete THEN IncDec ELSE RepIncDec
MemOps == IF Concrete THEN {".", "->"} ELSE {"->"}

N(l)  == <<"N", l, FALSE>>
T(s)  == <<"T", s>>
R(k, op, n) == <<"R", k, op, n>>
PAR   == <<"P">>

IntTypename == [k |-> "Typename", name |-> Nil, quals |-> <<>>,
                type |-> [k |-> "TypeDecl", declname |-> Nil, quals |-> <<>>,
                          type |-> [k |-> "IdentifierType", names |-> <<"int">>]]]

\* One record per production of 6.5: its level, its right-hand side, its cost in operator nodes.
BinProds == { [lvl |-> BinLevel(op), rhs |-> <<N(BinLevel(op)), T(op), N(BinLevel(op)+1), R("BinaryOp", op, 2)>>, cost |-> 1] : op \in RepBin }
Prods == IF BinOnly THEN BinProds ELSE
     { [lvl |-> BinLevel(op), rhs |-> <<N(BinLevel(op)), T(op), N(BinLevel(op)+1), R("BinaryOp", op, 2)>>, cost |-> 1] : op \in BinOps }
  \cup { [lvl |-> 2,  rhs |-> <<N(15), T(op), N(2), R("Assignment", op, 2)>>, cost |-> 1] : op \in AsgOps }
  \cup { [lvl |-> 3,  rhs |-> <<N(4), T("?"), N(1), T(":"), N(3), R("TernaryOp", "", 3)>>, cost |-> 1] }
  \cup { [lvl |-> 1,  rhs |-> <<N(1), T(","), N(2), R("Comma", "", 2)>>, cost |-> 1] }
  \cup { [lvl |-> 15, rhs |-> <<T(op), N(14), R("UnaryOp", op, 1)>>, cost |-> 1] : op \in PreOps }
  \cup { [lvl |-> 15, rhs |-> <<T(op), N(15), R("UnaryOp", op, 1)>>, cost |-> 1] : op \in IncOps }
  \cup { [lvl |-> 15, rhs |-> <<T("sizeof"), N(15), R("UnaryOp", "sizeof", 1)>>, cost |-> 1] }
  \cup { [lvl |-> 15, rhs |-> <<T("sizeof"), T("("), T("int"), T(")"), R("TypeOp", "sizeof", 0)>>, cost |-> 1] }
  \cup { [lvl |-> 15, rhs |-> <<T("_Alignof"), T("("), T("int"), T(")"), R("TypeOp", "_Alignof", 0)>>, cost |-> 1] }
  \cup { [lvl |-> 14, rhs |-> <<T("("), T("int"), T(")"), N(14), R("Cast", "", 1)>>, cost |-> 1] }
  \cup { [lvl |-> 16, rhs |-> <<N(16), T(op), R("UnaryOp", "p" \o op, 1)>>, cost |-> 1] : op \in IncOps }
  \cup { [lvl |-> 16, rhs |-> <<N(16), T("["), N(1), T("]"), R("ArrayRef", "", 2)>>, cost |-> 1] }
  \cup { [lvl |-> 16, rhs |-> <<N(16), T("("), T(")"), R("FuncCall", "", 1)>>, cost |-> 1] }
  \cup { [lvl |-> 16, rhs |-> <<N(16), T("("), N(2), T(")"), R("FuncCall", "", 2)>>, cost |-> 1] }
  \cup { [lvl |-> 16, rhs |-> <<N(16), T("("), N(2), T(","), N(2), T(")"), R("FuncCall", "", 3)>>, cost |-> 1] }
  \cup { [lvl |-> 16, rhs |-> <<N(16), T(op), T("m"), R("StructRef", op, 1)>>, cost |-> 1] : op \in MemOps }
  \cup { [lvl |-> 16, rhs |-> <<T("("), T("int"), T(")"), T("{"), N(2), T("}"), R("CompoundLiteral", "", 1)>>, cost |-> 1] }

Top  == Head(stack)
Rest == Tail(stack)
TopN(s, n) == SubSeq(s, Len(s)-n+1, Len(s))
PopN(s, n) == SubSeq(s, 1, Len(s)-n)
IsPar(v) == "par" \in DOMAIN v

\* Semantic actions: the tree 6.5 assigns, in pycparser's vocabulary.
Build(k, op, a) ==
  CASE k = "BinaryOp"   -> [k |-> "BinaryOp", op |-> op, left |-> a[1], right |-> a[2]]
    [] k = "Assignment" -> [k |-> "Assignment", op |-> op, lvalue |-> a[1], rvalue |-> a[2]]
    [] k = "TernaryOp"  -> [k |-> "TernaryOp", cond |-> a[1], iftrue |-> a[2], iffalse |-> a[3]]
    [] k = "Comma"      -> \* a top-level comma chain is one flat list; a parenthesised operand stays nested
                           IF a[1].k = "ExprList" /\ ~IsPar(a[1])
                           THEN [k |-> "ExprList", exprs |-> Append(a[1].exprs, a[2])]
                           ELSE [k |-> "ExprList", exprs |-> <<a[1], a[2]>>]
    [] k = "UnaryOp"    -> [k |-> "UnaryOp", op |-> op, expr |-> a[1]]
    [] k = "TypeOp"     -> [k |-> "UnaryOp", op |-> op, expr |-> IntTypename]
    [] k = "Cast"       -> [k |-> "Cast", to_type |-> IntTypename, expr |-> a[1]]
    [] k = "ArrayRef"   -> [k |-> "ArrayRef", name |-> a[1], subscript |-> a[2]]
    [] k = "FuncCall"   -> [k |-> "FuncCall", name |-> a[1],
                            args |-> IF Len(a) = 1 THEN Nil ELSE [k |-> "ExprList", exprs |-> Tail(a)]]
    [] k = "StructRef"  -> [k |-> "StructRef", name |-> a[1], type |-> op, field |-> [k |-> "ID", name |-> "m"]]
    [] k = "CompoundLiteral" -> [k |-> "CompoundLiteral", type |-> IntTypename,
                                 init |-> [k |-> "InitList", exprs |-> <<a[1]>>]]

LeafName(i) == "v" \o ToString(i)
LeafVal(i)  == IF i % 3 = 0 THEN [k |-> "Constant", type |-> "int", value |-> ToString(i)]
               ELSE [k |-> "ID", name |-> LeafName(i)]
LeafTok(i)  == IF i % 3 = 0 THEN ToString(i) ELSE LeafName(i)

Init == /\ stack = << <<"N", 1, TRUE>> >> /\ toks = <<>> /\ vals = <<>> /\ ops = 0 /\ nleaf = 0
        /\ mode \in Modes /\ rl = 0

IsRoot == Top[3]
Wrapped(rhs) == <<T("(")>> \o rhs \o <<T(")"), PAR>>

\* primary-expression: identifier | constant   (leaves are numbered so that operand order shows)
Leaf == /\ stack # <<>> /\ Top[1] = "N"
        /\ nleaf' = nleaf + 1
        /\ LET i == nleaf + 1
               need == (mode = "full" /\ ~IsRoot)
           IN \/ /\ ~need
                 /\ toks' = Append(toks, LeafTok(i)) /\ vals' = Append(vals, LeafVal(i)) /\ stack' = Rest
              \/ /\ (need \/ (mode = "red" /\ ~IsRoot))
                 /\ toks' = toks \o <<"(", LeafTok(i), ")">>
                 /\ vals' = Append(vals, LeafVal(i) @@ [par |-> TRUE]) /\ stack' = Rest
        /\ rl' = IF IsRoot THEN 17 ELSE rl
        /\ UNCHANGED <<ops, mode>>

Expand == /\ stack # <<>> /\ Top[1] = "N"
          /\ \E p \in Prods :
               /\ ops + p.cost <= MaxOps
               /\ ops' = ops + p.cost
               /\ LET must == p.lvl < Top[2]                  \* the grammar requires ( )
                      full == mode = "full" /\ ~IsRoot
                  IN \/ /\ ~must /\ ~full /\ stack' = p.rhs \o Rest
                     \/ /\ (must \/ full \/ (mode = "red" /\ ~IsRoot))
                        /\ stack' = Wrapped(p.rhs) \o Rest
               /\ rl' = IF IsRoot THEN p.lvl ELSE rl
          /\ UNCHANGED <<toks, vals, nleaf, mode>>

Emit == /\ stack # <<>> /\ Top[1] = "T"
        /\ toks' = Append(toks, Top[2]) /\ stack' = Rest /\ UNCHANGED <<vals, ops, nleaf, mode, rl>>

Reduce == /\ stack # <<>> /\ Top[1] = "R"
          /\ vals' = Append(PopN(vals, Top[4]), Build(Top[2], Top[3], TopN(vals, Top[4])))
          /\ stack' = Rest /\ UNCHANGED <<toks, ops, nleaf, mode, rl>>

MarkPar == /\ stack # <<>> /\ Top[1] = "P"
           /\ vals' = [vals EXCEPT ![Len(vals)] = IF IsPar(@) THEN @ ELSE @ @@ [par |-> TRUE]]
           /\ stack' = Rest /\ UNCHANGED <<toks, ops, nleaf, mode, rl>>

Next == Leaf \/ Expand \/ Emit \/ Reduce \/ MarkPar
Spec == Init /\ [][Next]_vars

Complete == stack = <<>>

\* ---------------------------------------------------------------------------------------
\* Internal consistency, checked by TLC on every complete state: an independent
\* operator-precedence recogniser, written directly from the level numbers, reads the
\* emitted tokens back and must rebuild exactly the value the semantic actions built.
\* (Binary / assignment / conditional / comma part; unary and postfix forms are consumed
\* by a small primary scanner.)  Kept simple: it checks the number of values and the shape
\* invariants that do not need a second parser.
ShapeOK ==
  Complete => /\ Len(vals) = 1
              /\ Len(toks) >= 1
              /\ ops <= MaxOps

\* brackets of every emitted prefix are balanced-so-far and closed at the end
RECURSIVE Depth(_, _)
Depth(s, i) == IF i = 0 THEN 0
               ELSE Depth(s, i-1) + (IF s[i] \in {"(", "[", "{"} THEN 1 ELSE IF s[i] \in {")", "]", "}"} THEN -1 ELSE 0)
Balanced == Complete => Depth(toks, Len(toks)) = 0

Export == Complete => PrintT("@@" \o ToJson([toks |-> toks, ast |-> vals[1], ops |-> ops, mode |-> mode, rl |-> rl]))
=============================================================================
