----------------------------- MODULE CLexTrace -----------------------------
(* Trace validation of recorded CLexer.token() calls against the cursor machine of CLex.

   A batch of traces is read from the file named by the environment variable TRACES:
     [ text, file, types, ev : << [tok, st, errs] >> ]
   one event per token() call, logged after the call returned: the token (or <<>> at end of
   input), the cursor state (pos, line, lstart, file, pend) and the offsets at which the error
   callback fired during the call.  Every event must be exactly what Call(...) prescribes for
   the state reached so far, until the specification itself expects an error; from then on
   ("recovered") only progress is required.  A trace is accepted iff all its events are
   consumed; accepted trace ids are printed as <<"ACC", tid>>.                              *)
EXTENDS CLex0, IOUtils

Traces == JsonDeserialize(IOEnv.TRACES)

VARIABLES tid, l, st, mode
tvars == <<tid, l, st, mode>>

T      == Traces[tid]
Ev     == T.ev[l]
TTypes == { T.types[i] : i \in 1..Len(T.types) }

TInit == /\ tid \in 1..Len(Traces) /\ l = 1 /\ mode = "exact"
         /\ st = InitState(Traces[tid].file)

SameState(a, b) == /\ a.pos = b.pos /\ a.line = b.line /\ a.lstart = b.lstart /\ a.file = b.file /\ a.pend = b.pend

Exact == /\ mode = "exact" /\ l <= Len(T.ev)
         /\ LET r == Call(T.text, st, TTypes) IN
            IF r.err # <<>>
            THEN /\ Ev.errs # <<>>                                   \* the error is reported ...
                 /\ r.err[1] <= Ev.errs[1] /\ Ev.errs[1] <= r.err[2]  \* ... where the malformed text is
                 /\ mode' = "recovered" /\ st' = Ev.st
            ELSE /\ Ev.errs = <<>>                                   \* no spurious error
                 /\ Ev.tok = r.tok                                   \* type, spelling, line, column
                 /\ SameState(Ev.st, r.st)                           \* pos, line, lstart, file, pend
                 /\ mode' = "exact" /\ st' = r.st
         /\ l' = l + 1 /\ UNCHANGED tid

\* after the first reported error: the cursor never moves backwards and a returned token's
\* spelling is the text that ends at the cursor (pending pragma strings excepted)
Recovered == /\ mode = "recovered" /\ l <= Len(T.ev)
             /\ Ev.st.pos >= st.pos
             /\ (Ev.tok # <<>> /\ Ev.tok[1] \notin {"PPPRAGMA", "PPPRAGMASTR"}
                   => Sub(T.text, Ev.st.pos - Len(Ev.tok[2]), Ev.st.pos) = Ev.tok[2])
             /\ (Ev.tok = <<>> => Ev.st.pos >= Len(T.text))
             /\ st' = Ev.st /\ l' = l + 1 /\ UNCHANGED <<tid, mode>>

TNext == Exact \/ Recovered
TSpec == TInit /\ [][TNext]_tvars

\* end of input is reached exactly once, as the last event
Complete == l = Len(T.ev) + 1 /\ Len(T.ev) >= 1 /\ T.ev[Len(T.ev)].tok = <<>>
Acc  == Complete => PrintT(<<"ACC", tid>>)
Diag == PrintT(<<"AT", tid, l, mode>>)
=============================================================================
