------------------------------- MODULE CTyped -------------------------------
(* The typed sub-machine of the grammar (C08, C01 sub-quantifier): derivations that are
   type-correct by construction, so that the derived functions can be handed to a C compiler.

   Holes carry a role instead of a precedence level (every operand is rendered with the
   parentheses the level table of CExpr demands - here simply around every compound operand,
   which is always valid C):
       R  an int rvalue      L  an int lvalue      P  a pointer to int
       S(l) a statement; l = TRUE inside a loop (break / continue allowed)
       B(l) a block item
   Leaves are drawn from a fixed prelude of declarations (harness/checks/c08.py: x, y
   parameters; globals g, fp, gp, arr, gs, ps, vol, cst; struct S, union U, enum E; typedef T).
   Every production costs 1; Fuel bounds the size; `feat` records the productions used.     *)
EXTENDS Naturals, Sequences, TLC, FiniteSets, Json

CONSTANTS Fuel,
          Exclude     \* production names left out of this instance
VARIABLES stack, toks, fuel, feat, uniq
vars == <<stack, toks, fuel, feat, uniq>>

T(s) == <<"T", s>>
N(r) == <<"N", r>>
U(p) == <<"U", p>>            \* a fresh name with prefix p (labels, local variables)
Pr(n, r) == [n |-> n, r |-> r]
Par(r) == <<T("(")>> \o r \o <<T(")")>>

BinOps == {"+", "-", "*", "/", "%", "<<", ">>", "<", ">", "<=", ">=", "==", "!=", "&", "^", "|", "&&", "||"}
AsgOps == {"=", "+=", "-=", "*=", "/=", "%=", "<<=", ">>=", "&=", "^=", "|="}

RLeaves == { Pr("x", <<T("x")>>), Pr("y", <<T("y")>>), Pr("dec", <<T("7")>>), Pr("oct", <<T("017")>>), Pr("hex", <<T("0x1F")>>),
             Pr("uns", <<T("3u")>>), Pr("chr", <<T("'c'")>>), Pr("enumconst", <<T("E1")>>), Pr("constvar", <<T("cst")>>),
             Pr("long", <<T("5L")>>) }
RProds ==
     { Pr("bin" \o op, <<T("("), N("R"), T(")"), T(op), T("("), N("R"), T(")")>>) : op \in BinOps }
  \cup { Pr("binflat" \o op, <<N("Rp"), T(op), N("Rp")>>) : op \in {"+", "*", "<", "==", "&&", "|"} }
  \cup { Pr("asg" \o op, <<N("L"), T(op), T("("), N("R"), T(")")>>) : op \in AsgOps }
  \cup { Pr("neg", <<T("-"), N("Rp")>>), Pr("not", <<T("~"), N("Rp")>>), Pr("lnot", <<T("!"), N("Rp")>>), Pr("plus", <<T("+"), N("Rp")>>),
         Pr("cond", <<T("("), N("R"), T(")"), T("?"), N("R"), T(":"), T("("), N("R"), T(")")>>),
         Pr("comma", <<T("("), N("R"), T(","), N("R"), T(")")>>),
         Pr("preinc", <<T("++"), N("L")>>), Pr("predec", <<T("--"), N("L")>>),
         Pr("postinc", <<T("("), N("L"), T(")"), T("++")>>), Pr("postdec", <<T("("), N("L"), T(")"), T("--")>>),
         Pr("sizeoft", <<T("("), T("int"), T(")"), T("sizeof"), T("("), T("struct"), T("S"), T(")")>>),
         Pr("sizeofe", <<T("("), T("int"), T(")"), T("sizeof"), N("L")>>),
         Pr("sizeofp", <<T("("), T("int"), T(")"), T("sizeof"), T("("), N("L"), T(")")>>),
         Pr("alignof", <<T("("), T("int"), T(")"), T("_Alignof"), T("("), T("long"), T(")")>>),
         Pr("cast_T", <<T("("), T("T"), T(")"), N("Rp")>>), Pr("cast_char", <<T("("), T("char"), T(")"), N("Rp")>>),
         Pr("cast_unsigned", <<T("("), T("unsigned"), T("short"), T(")"), N("Rp")>>),
         Pr("call2", <<T("g"), T("("), N("R"), T(","), N("R"), T(")")>>),
         Pr("callfp", <<T("fp"), T("("), N("R"), T(")")>>), Pr("callderef", <<T("("), T("*"), T("fp"), T(")"), T("("), N("R"), T(")")>>),
         Pr("lvalue", <<N("L")>>),
         Pr("bitfield", <<T("gs"), T("."), T("b")>>), Pr("nestedmember", <<T("gs"), T("."), T("in"), T("."), T("q")>>),
         Pr("memberarr", <<T("gs"), T("."), T("arr"), T("["), N("R"), T("]")>>),
         Pr("unionmember", <<T("gu"), T("."), T("c")>>),
         Pr("complit_struct", <<T("("), T("struct"), T("S"), T(")"), T("{"), T("."), T("a"), T("="), N("R"), T("}"), T("."), T("a")>>),
         Pr("complit_int", <<T("("), T("int"), T(")"), T("{"), N("R"), T("}")>>),
         Pr("complit_arr", <<T("("), T("int"), T("["), T("]"), T(")"), T("{"), N("R"), T(","), N("R"), T("}"), T("["), T("1"), T("]")>>),
         Pr("ptrdiff", <<T("("), T("int"), T(")"), T("("), N("P"), T("-"), N("P"), T(")")>>),
         Pr("ptrcmp", <<N("P"), T("=="), N("P")>>) }
  \* operator combinations written WITHOUT parentheses: this is where a regrouping on the way through the AST
  \* changes what the compiler understands (precedence, associativity, binding of unary operators and casts)
  \cup { Pr("flat:condchain", <<N("Rp"), T("?"), N("Rp"), T(":"), N("Rp"), T("?"), N("Rp"), T(":"), N("Rp")>>),
         Pr("flat:condmid", <<N("Rp"), T("?"), N("Rp"), T("?"), N("Rp"), T(":"), N("Rp"), T(":"), N("Rp")>>),
         Pr("flat:asgchain", <<T("x"), T("="), T("y"), T("+="), N("Rp")>>),
         Pr("flat:asgcond", <<T("x"), T("="), N("Rp"), T("?"), N("Rp"), T(":"), N("Rp")>>),
         Pr("flat:negmul", <<T("-"), N("Rp"), T("*"), N("Rp")>>),
         Pr("flat:castadd", <<T("("), T("char"), T(")"), N("Rp"), T("+"), N("Rp")>>),
         Pr("flat:noteq", <<T("!"), N("Rp"), T("=="), N("Rp")>>),
         Pr("flat:derefinc", <<T("*"), T("gp"), T("++")>>), Pr("flat:incderef", <<T("++"), T("*"), T("gp")>>),
         Pr("flat:negneg", <<T("-"), T("-"), N("Rp")>>), Pr("flat:minusneg", <<N("Rp"), T("-"), T("-"), N("Rp")>>),
         Pr("flat:sizeofadd", <<T("("), T("int"), T(")"), T("sizeof"), T("x"), T("+"), N("Rp")>>),
         Pr("flat:comma3", <<T("("), N("Rp"), T(","), N("Rp"), T(","), N("Rp"), T(")")>>),
         Pr("flat:memberpost", <<T("ps"), T("->"), T("a"), T("++")>>), Pr("flat:addrmember", <<T("*"), T("&"), T("gs"), T("."), T("a")>>) }
  \* adjacent operators that would lex differently if the generator dropped the parentheses (or the blank) between
  \* them: - -a / --a, + +a / ++a, a - -b, a-- - b, a / *p ...
  \cup { Pr("flat:uu" \o a \o b, <<T(a), T("("), T(b), N("Rp"), T(")")>>) : a \in {"-", "+", "!", "~"}, b \in {"-", "+", "!", "~"} }
  \cup { Pr("flat:upre" \o a \o b, <<T(a), T("("), T(b), N("L"), T(")")>>) : a \in {"-", "+", "!", "~"}, b \in {"++", "--"} }
  \cup { Pr("flat:upost" \o a \o b, <<T(a), T("("), T("("), N("L"), T(")"), T(b), T(")")>>) : a \in {"-", "+", "!", "~"}, b \in {"++", "--"} }
  \cup { Pr("flat:binun" \o a \o b, <<N("Rp"), T(a), T("("), T(b), N("Rp"), T(")")>>) : a \in {"-", "+", "*", "&", "<<"}, b \in {"-", "+", "~", "!"} }
  \cup { Pr("flat:binpre" \o a \o b, <<N("Rp"), T(a), T("("), T(b), N("L"), T(")")>>) : a \in {"-", "+"}, b \in {"++", "--"} }
  \cup { Pr("flat:postbin" \o a \o b, <<T("("), T("("), N("L"), T(")"), T(a), T(")"), T(b), N("Rp")>>) : a \in {"++", "--"}, b \in {"-", "+"} }
  \cup { Pr("flat:postbinpre" \o a, <<T("("), T("x"), T(a), T(")"), T(SubSeq(a, 1, 1)), T("("), T(a), T("y"), T(")")>>) : a \in {"++", "--"} }
  \cup { Pr("flat:divderef", <<N("Rp"), T("/"), T("("), T("*"), T("gp"), T(")")>>), Pr("flat:mulderef", <<N("Rp"), T("*"), T("("), T("*"), T("gp"), T(")")>>),
         Pr("flat:andaddr", <<T("("), T("gp"), T("=="), T("("), T("&"), T("x"), T(")"), T(")"), T("&"), T("("), T("&"), T("y"), T("!="), T("gp"), T(")")>>),
         Pr("flat:derefderef", <<T("*"), T("("), T("*"), T("("), T("&"), T("gp"), T(")"), T(")")>>) }
  \* type names whose meaning hangs on the parentheses of the abstract declarator (6.7.6): sizes differ when they are lost
  \cup {
    Pr("tn:sizeof1", <<T("sizeof"), T("(")>> \o <<T("int"), T("("), T("*"), T("const"), T(")"), T("["), T("3"), T("]")>> \o <<T(")")>>),
    Pr("tn:sizeof2", <<T("sizeof"), T("(")>> \o <<T("int"), T("("), T("*"), T("volatile"), T(")"), T("("), T("int"), T(")")>> \o <<T(")")>>),
    Pr("tn:sizeof3", <<T("sizeof"), T("(")>> \o <<T("int"), T("*"), T("const"), T("["), T("3"), T("]")>> \o <<T(")")>>),
    Pr("tn:alignof3", <<T("_Alignof"), T("(")>> \o <<T("int"), T("*"), T("const"), T("["), T("3"), T("]")>> \o <<T(")")>>),
    Pr("tn:sizeof4", <<T("sizeof"), T("(")>> \o <<T("int"), T("("), T("*"), T(")"), T("["), T("3"), T("]")>> \o <<T(")")>>),
    Pr("tn:sizeof5", <<T("sizeof"), T("(")>> \o <<T("int"), T("*"), T("["), T("3"), T("]")>> \o <<T(")")>>),
    Pr("tn:sizeof6", <<T("sizeof"), T("(")>> \o <<T("int"), T("("), T("*"), T("("), T("*"), T(")"), T("("), T("void"), T(")"), T(")"), T("["), T("2"), T("]")>> \o <<T(")")>>),
    Pr("tn:alignof6", <<T("_Alignof"), T("(")>> \o <<T("int"), T("("), T("*"), T("("), T("*"), T(")"), T("("), T("void"), T(")"), T(")"), T("["), T("2"), T("]")>> \o <<T(")")>>),
    Pr("tn:sizeof7", <<T("sizeof"), T("(")>> \o <<T("int"), T("*"), T("("), T("*"), T(")"), T("("), T("int"), T(")")>> \o <<T(")")>>),
    Pr("tn:sizeof8", <<T("sizeof"), T("(")>> \o <<T("int"), T("("), T("*"), T("const"), T("*"), T(")"), T("["), T("2"), T("]")>> \o <<T(")")>>),
    Pr("tn:sizeof9", <<T("sizeof"), T("(")>> \o <<T("int"), T("("), T("*"), T("["), T("2"), T("]"), T(")"), T("("), T("int"), T(")")>> \o <<T(")")>>),
    Pr("tn:alignof9", <<T("_Alignof"), T("(")>> \o <<T("int"), T("("), T("*"), T("["), T("2"), T("]"), T(")"), T("("), T("int"), T(")")>> \o <<T(")")>>),
    Pr("tn:sizeof10", <<T("sizeof"), T("(")>> \o <<T("int"), T("("), T("*"), T("("), T("*"), T("["), T("2"), T("]"), T(")"), T("("), T("void"), T(")"), T(")"), T("["), T("3"), T("]")>> \o <<T(")")>>),
    Pr("tn:sizeof11", <<T("sizeof"), T("(")>> \o <<T("char"), T("("), T("*"), T("restrict"), T(")"), T("["), T("5"), T("]")>> \o <<T(")")>>),
    Pr("tn:sizeof12", <<T("sizeof"), T("(")>> \o <<T("struct"), T("S"), T("("), T("*"), T(")"), T("["), T("2"), T("]")>> \o <<T(")")>>),
    Pr("tn:alignof12", <<T("_Alignof"), T("(")>> \o <<T("struct"), T("S"), T("("), T("*"), T(")"), T("["), T("2"), T("]")>> \o <<T(")")>>),
    Pr("tn:sizeof13", <<T("sizeof"), T("(")>> \o <<T("int"), T("("), T("*"), T("*"), T("const"), T(")"), T("["), T("2"), T("]")>> \o <<T(")")>>),
    Pr("tn:sizeof14", <<T("sizeof"), T("(")>> \o <<T("const"), T("int"), T("*"), T("const"), T("*")>> \o <<T(")")>>),
    Pr("tn:sizeof15", <<T("sizeof"), T("(")>> \o <<T("int"), T("("), T("*"), T(")"), T("("), T("int"), T("("), T("*"), T(")"), T("("), T("void"), T(")"), T(")")>> \o <<T(")")>>),
    Pr("tn:alignof15", <<T("_Alignof"), T("(")>> \o <<T("int"), T("("), T("*"), T(")"), T("("), T("int"), T("("), T("*"), T(")"), T("("), T("void"), T(")"), T(")")>> \o <<T(")")>>),
    Pr("tn:sizeof16", <<T("sizeof"), T("(")>> \o <<T("long"), T("("), T("*"), T("("), T("*"), T(")"), T("["), T("2"), T("]"), T(")"), T("("), T("int"), T(","), T("..."), T(")")>> \o <<T(")")>>),
    Pr("tn:sizeof17", <<T("sizeof"), T("(")>> \o <<T("int"), T("("), T("*"), T("const"), T("["), T("2"), T("]"), T(")"), T("["), T("3"), T("]")>> \o <<T(")")>>),
    Pr("tn:sizeof18", <<T("sizeof"), T("(")>> \o <<T("char"), T("("), T("*"), T("("), T("*"), T("const"), T(")"), T("("), T("void"), T(")"), T(")"), T("("), T("int"), T(")")>> \o <<T(")")>>),
    Pr("tn:alignof18", <<T("_Alignof"), T("(")>> \o <<T("char"), T("("), T("*"), T("("), T("*"), T("const"), T(")"), T("("), T("void"), T(")"), T(")"), T("("), T("int"), T(")")>> \o <<T(")")>>) }
  \cup { Pr("flat3:" \o a \o b, <<N("Rp"), T(a), N("Rp"), T(b), N("Rp")>>) :
           a \in {"-", "/", "+", "*", "<<", "&", "|", "^", "<", "==", "&&", "||", "%", ">>"},
           b \in {"-", "/", "+", "*", "<<", "&", "|", "^", "<", "==", "&&", "||", "%", ">>"} }
\* a parenthesised rvalue or a leaf: an operand that needs no further parentheses
RpProds == { Pr("paren", <<T("("), N("R"), T(")")>>) }
LProds == { Pr("Lx", <<T("x")>>), Pr("Ly", <<T("y")>>), Pr("Lvol", <<T("vol")>>),
            Pr("deref", <<T("*"), N("Pp")>>), Pr("index", <<T("arr"), T("["), N("R"), T("]")>>),
            Pr("pindex", <<N("Pp"), T("["), N("R"), T("]")>>),
            Pr("member", <<T("gs"), T("."), T("a")>>), Pr("arrow", <<T("ps"), T("->"), T("a")>>),
            Pr("arrowarr", <<T("ps"), T("->"), T("arr"), T("["), T("2"), T("]")>>) }
PLeaves == { Pr("gp", <<T("gp")>>), Pr("arrdecay", <<T("arr")>>), Pr("memberdecay", <<T("gs"), T("."), T("arr")>>) }
\* every compound pointer expression is rendered inside its own parentheses, so that a P hole can
\* stand in any operand position
PProds == { Pr("addr", Par(<<T("&"), N("L")>>)), Pr("padd", Par(<<N("P"), T("+"), T("("), N("R"), T(")")>>)),
            Pr("psub", Par(<<N("P"), T("-"), T("("), N("R"), T(")")>>)), Pr("pcast", Par(<<T("("), T("int"), T("*"), T(")"), N("P")>>)),
            Pr("pcond", Par(<<T("("), N("R"), T(")"), T("?"), N("P"), T(":"), N("P")>>)),
            Pr("addrindex", Par(<<T("&"), T("arr"), T("["), N("R"), T("]")>>)) }
PpProds == PProds

\* a labelled (or case-labelled) statement as the UNBRACED body of a controlling statement, one flat production
\* per (controlling statement, kind of labelled statement): whether the labelled statement stays attached to
\* its label - and with it to the controlling statement - decides what the compiler generates
Ctls == {"if", "else", "while", "for", "do", "case", "default"}
Kinds == {"expr", "empty", "block", "if", "while", "do", "for", "switch", "return"}
Kind(k) == CASE k = "expr" -> <<N("R"), T(";")>> [] k = "empty" -> <<T(";")>> [] k = "block" -> <<T("{"), N("R"), T(";"), T("}")>>
             [] k = "if" -> <<T("if"), T("("), N("R"), T(")"), N("R"), T(";")>>
             [] k = "while" -> <<T("while"), T("("), N("R"), T(")"), N("R"), T(";")>>
             [] k = "do" -> <<T("do"), N("R"), T(";"), T("while"), T("("), N("R"), T(")"), T(";")>>
             [] k = "for" -> <<T("for"), T("("), T(";"), N("R"), T(";"), T(")"), N("R"), T(";")>>
             [] k = "switch" -> <<T("switch"), T("("), N("R"), T(")"), T("{"), T("default"), T(":"), N("R"), T(";"), T("}")>>
             [] k = "return" -> <<T("return"), N("R"), T(";")>>
Lab(k) == <<U("L"), T(":")>> \o Kind(k)
Ctl(c, k) == CASE c = "if" -> <<T("if"), T("("), N("R"), T(")")>> \o Lab(k)
               [] c = "else" -> <<T("if"), T("("), N("R"), T(")"), T(";"), T("else")>> \o Lab(k)
               [] c = "while" -> <<T("while"), T("("), N("R"), T(")")>> \o Lab(k)
               [] c = "for" -> <<T("for"), T("("), T(";"), N("R"), T(";"), T(")")>> \o Lab(k)
               [] c = "do" -> <<T("do")>> \o Lab(k) \o <<T("while"), T("("), N("R"), T(")"), T(";")>>
               [] c = "case" -> <<T("switch"), T("("), N("R"), T(")"), T("case"), T("1"), T(":")>> \o Kind(k)
               [] c = "default" -> <<T("switch"), T("("), N("R"), T(")"), T("default"), T(":")>> \o Kind(k)

StmtProds(l) ==
  { Pr("exprstmt", <<N("R"), T(";")>>), Pr("emptystmt", <<T(";")>>),
    Pr("block", <<T("{"), N(IF l THEN "Bl" ELSE "B"), N(IF l THEN "Bl" ELSE "B"), T("}")>>),
    Pr("if", <<T("if"), T("("), N("R"), T(")"), T("{"), N(IF l THEN "Sl" ELSE "S"), T("}")>>),
    Pr("ifelse", <<T("if"), T("("), N("R"), T(")"), N(IF l THEN "Scl" ELSE "Sc"), T("else"), N(IF l THEN "Sl" ELSE "S")>>),
    Pr("while", <<T("while"), T("("), N("R"), T(")"), N("Sl")>>),
    Pr("dowhile", <<T("do"), N("Sl"), T("while"), T("("), N("R"), T(")"), T(";")>>),
    Pr("for", <<T("for"), T("("), N("R"), T(";"), N("R"), T(";"), N("R"), T(")"), N("Sl")>>),
    Pr("forempty", <<T("for"), T("("), T(";"), N("R"), T(";"), T(")"), N("Sl")>>),
    Pr("fordecl", <<T("for"), T("("), T("int"), U("i"), T("="), N("R"), T(","), T("*"), U("q"), T("="), N("P"), T(";"), N("R"), T(";"), T(")"), N("Sl")>>),
    Pr("switch1", <<T("switch"), T("("), N("R"), T(")"), T("{"), T("case"), T("1"), T(":"), N(IF l THEN "Sl" ELSE "S"), T("break"), T(";"),
                    T("default"), T(":"), N(IF l THEN "Sl" ELSE "S"), T("}")>>),
    Pr("switch2", <<T("switch"), T("("), N("R"), T(")"), T("{"), T("case"), T("1"), T(":"), T("case"), T("2"), T(":"), N(IF l THEN "Sl" ELSE "S"),
                    T("case"), T("E2"), T(":"), N(IF l THEN "Sl" ELSE "S"), T("break"), T(";"), T("}")>>),
    Pr("switch3", <<T("switch"), T("("), N("R"), T(")"), T("{"), T("default"), T(":"), N(IF l THEN "Sl" ELSE "S"), T("break"), T(";"),
                    T("case"), T("3"), T("+"), T("4"), T(":"), T("{"), N(IF l THEN "Bl" ELSE "B"), T("}"), T("}")>>),
    \* runs of three and four labels followed by several statements (every statement belongs to the LAST label of the run)
    Pr("switch4", <<T("switch"), T("("), N("R"), T(")"), T("{"), T("case"), T("1"), T(":"), T("case"), T("2"), T(":"), T("case"), T("3"), T(":"),
                    N(IF l THEN "Sl" ELSE "S"), N(IF l THEN "Sl" ELSE "S"), T("break"), T(";"), T("case"), T("5"), T(":"), N(IF l THEN "Sl" ELSE "S"), T("}")>>),
    Pr("switch5", <<T("switch"), T("("), N("R"), T(")"), T("{"), T("case"), T("1"), T(":"), T("default"), T(":"), T("case"), T("3"), T(":"), T("case"), T("E2"), T(":"),
                    N(IF l THEN "Sl" ELSE "S"), N("R"), T(";"), N(IF l THEN "Sl" ELSE "S"), T("}")>>),
    Pr("switch_nested", <<T("switch"), T("("), N("R"), T(")"), T("{"), T("case"), T("1"), T(":"), N(IF l THEN "Sl" ELSE "S"),
                          T("switch"), T("("), N("R"), T(")"), N("R"), T(";"), N(IF l THEN "Sl" ELSE "S"), T("break"), T(";"), T("}")>>),
    Pr("gotolabel", <<T("{"), T("if"), T("("), N("R"), T(")"), T("goto"), U("L"), T(";"), N("R"), T(";"), U("=L"), T(":"), N(IF l THEN "Sl" ELSE "S"), T("}")>>),
    Pr("return", <<T("return"), N("R"), T(";")>>) }
  \cup { Pr("lab:" \o c \o ":" \o k, Ctl(c, k)) : c \in Ctls, k \in Kinds }
  \cup (IF l THEN { Pr("break", <<T("break"), T(";")>>), Pr("continue", <<T("continue"), T(";")>>) } ELSE {})
\* statements that may stand between `if (..)` and `else`: closed forms only
ClosedProds(l) == { p \in StmtProds(l) : p.n \in {"exprstmt", "emptystmt", "block", "dowhile", "return", "break", "continue", "switch1", "gotolabel"} }
ItemProds(l) ==
  { Pr("item_stmt", <<N(IF l THEN "Sl" ELSE "S")>>),
    Pr("local_int", <<T("int"), U("v"), T("="), N("R"), T(";")>>),
    Pr("local_two", <<T("int"), U("v"), T("="), N("R"), T(","), T("*"), U("w"), T("="), N("P"), T(";")>>),
    Pr("local_array", <<T("int"), U("a"), T("["), T("3"), T("]"), T("="), T("{"), N("R"), T(","), N("R"), T("}"), T(";")>>),
    Pr("local_desig", <<T("int"), U("a"), T("["), T("4"), T("]"), T("="), T("{"), T("["), T("2"), T("]"), T("="), N("R"), T(","), T("["), T("0"), T("]"), T("="), N("R"), T("}"), T(";")>>),
    Pr("local_desig_enum", <<T("int"), U("a"), T("["), T("8"), T("]"), T("="), T("{"), T("["), T("E1"), T("]"), T("="), N("R"), T("}"), T(";")>>),
    Pr("local_struct", <<T("struct"), T("S"), U("s"), T("="), T("{"), T("."), T("a"), T("="), N("R"), T(","), T("."), T("b"), T("="), T("1"), T(","), T("."), T("in"), T("."), T("q"), T("="), N("R"), T("}"), T(";")>>),
    Pr("local_struct_pos", <<T("struct"), T("S"), U("s"), T("="), T("{"), N("R"), T(","), T("2"), T(","), T("{"), N("R"), T("}"), T(","), T("{"), T("1"), T(","), T("2"), T("}"), T("}"), T(";")>>),
    Pr("local_static", <<T("static"), T("const"), T("int"), U("k"), T("="), T("4"), T(";")>>),
    Pr("local_quals", <<T("volatile"), T("unsigned"), T("long"), U("u"), T("="), N("R"), T(";")>>),
    Pr("local_fnptr", <<T("int"), T("("), T("*"), U("h"), T(")"), T("("), T("int"), T(","), T("int"), T(")"), T("="), T("g"), T(";")>>),
    Pr("local_typedef", <<T("typedef"), T("int"), U("A"), T("["), T("2"), T("]"), T(";")>>),
    Pr("local_tn1", <<T("int"), T("("), T("*"), T("const"), U("d"), T(")"), T("["), T("3"), T("]"), T("="), T("0")>> \o <<T(";")>>),
    Pr("local_tn2", <<T("int"), T("*"), U("d"), T("["), T("3"), T("]"), T("="), T("{"), T("0"), T("}")>> \o <<T(";")>>),
    Pr("local_tn3", <<T("int"), T("("), T("*"), U("d"), T(")"), T("("), T("int"), T(","), T("int"), T(")"), T("="), T("g")>> \o <<T(";")>>),
    Pr("local_tn4", <<T("int"), T("("), T("*"), U("d"), T("["), T("2"), T("]"), T(")"), T("("), T("int"), T(","), T("int"), T(")"), T("="), T("{"), T("g"), T(","), T("g"), T("}")>> \o <<T(";")>>),
    Pr("local_tn5", <<T("int"), T("("), T("*"), T("("), T("*"), U("d"), T(")"), T("("), T("void"), T(")"), T(")"), T("["), T("2"), T("]"), T("="), T("0")>> \o <<T(";")>>),
    Pr("local_tn6", <<T("int"), T("("), T("*"), T("const"), T("*"), U("d"), T(")"), T("["), T("2"), T("]"), T("="), T("0")>> \o <<T(";")>>),
    Pr("local_tn7", <<T("char"), T("("), T("*"), T("const"), U("d"), T("["), T("2"), T("]"), T(")"), T("["), T("3"), T("]"), T("="), T("{"), T("0"), T("}")>> \o <<T(";")>>),
    \* which pointer level a qualifier sits on, made visible through pointer compatibility (gq, gr: globals of the prelude)
    Pr("local_qchain1", <<T("int"), T("*"), T("const"), T("*"), T("*"), U("d"), T("="), T("gq"), T(";")>>),
    Pr("local_qchain2", <<T("int"), T("*"), T("volatile"), T("*"), U("d"), T("="), T("gr"), T("("), T(")"), T(";")>>),
    Pr("local_qchain3", <<T("int"), T("*"), T("const"), T("*"), U("d"), T("["), T("2"), T("]"), T("="), T("{"), T("gq"), T("["), T("0"), T("]"), T(","), T("gq"), T("["), T("1"), T("]"), T("}"), T(";"),
                          T("gqq"), T("="), U("=d"), T(";")>>),
    Pr("local_sassert", <<T("_Static_assert"), T("("), T("sizeof"), T("("), T("int"), T(")"), T(">="), T("2"), T(","), T("\"m\""), T(")"), T(";")>>) }

Alts(r) == CASE r = "R" -> RLeaves \cup RProds
             [] r = "Rp" -> RLeaves \cup RpProds
             [] r = "L" -> LProds
             [] r = "P" -> PLeaves \cup PProds
             [] r = "Pp" -> PLeaves \cup PpProds
             [] r = "S" -> StmtProds(FALSE) [] r = "Sl" -> StmtProds(TRUE)
             [] r = "Sc" -> ClosedProds(FALSE) [] r = "Scl" -> ClosedProds(TRUE)
             [] r = "B" -> ItemProds(FALSE) [] r = "Bl" -> ItemProds(TRUE)
\* the cheapest completion of every role, used when the fuel is spent
Default(r) == CASE r \in {"R", "Rp"} -> <<T("x")>> [] r = "L" -> <<T("y")>> [] r \in {"P", "Pp"} -> <<T("gp")>>
                [] r \in {"S", "Sl", "Sc", "Scl"} -> <<T(";")>> [] r \in {"B", "Bl"} -> <<T(";")>>

Init == /\ stack = << N("B"), N("B"), T("return"), N("R"), T(";") >>
        /\ toks = <<>> /\ fuel = Fuel /\ feat = {} /\ uniq = 0

Top == Head(stack)
Rest == Tail(stack)
Expand == /\ stack # <<>> /\ Top[1] = "N" /\ fuel > 0
          /\ \E a \in Alts(Top[2]) :
               /\ a.n \notin Exclude
               /\ stack' = a.r \o Rest /\ feat' = feat \cup {a.n}
          /\ fuel' = fuel - 1 /\ UNCHANGED <<toks, uniq>>
Fill   == /\ stack # <<>> /\ Top[1] = "N" /\ fuel = 0
          /\ stack' = Default(Top[2]) \o Rest /\ UNCHANGED <<toks, fuel, feat, uniq>>
Emit   == /\ stack # <<>> /\ Top[1] = "T"
          /\ toks' = Append(toks, Top[2]) /\ stack' = Rest /\ UNCHANGED <<fuel, feat, uniq>>
\* U("p") emits a fresh name p<n>; U("=p") repeats the most recent one (label definition after its goto)
Fresh  == /\ stack # <<>> /\ Top[1] = "U"
          /\ IF SubSeq(Top[2], 1, 1) = "="
             THEN /\ toks' = Append(toks, SubSeq(Top[2], 2, Len(Top[2])) \o ToString(uniq)) /\ UNCHANGED uniq
             ELSE /\ uniq' = uniq + 1 /\ toks' = Append(toks, Top[2] \o ToString(uniq + 1))
          /\ stack' = Rest /\ UNCHANGED <<fuel, feat>>
Next == Expand \/ Fill \/ Emit \/ Fresh
Spec == Init /\ [][Next]_vars

Complete == stack = <<>>
\* brackets of every complete derivation balance (sanity of the tables)
RECURSIVE Depth(_, _)
Depth(s, i) == IF i = 0 THEN 0 ELSE Depth(s, i-1) + (IF s[i] \in {"(", "[", "{"} THEN 1 ELSE 0)
BalancedCount == Complete => Depth(toks, Len(toks)) = Cardinality({i \in 1..Len(toks) : toks[i] \in {")", "]", "}"}})
Export == Complete => PrintT("@@" \o ToJson([toks |-> toks, feat |-> feat]))
=============================================================================
