---- MODULE CGram ----
(* The full grammar machine (acceptance; the sub-languages with semantic values are CExpr,
   CDecl, CStmt).  A leftmost derivation over C99 Annex A plus the C11 productions pycparser
   documents (_Atomic, _Alignas/_Alignof, _Static_assert, _Noreturn, _Thread_local, anonymous
   struct/union members, u8/u/U literals).  Every nonterminal has one cost-0 default
   production that is terminal-only or leads to defaults; every other production costs 1 and
   `fuel` bounds the number of non-default choices, so fuel = 2 reaches every ordered pair of
   productions nested in every way the grammar allows.  `feat` records the non-default
   productions used (history variable; the findings file is keyed on it).

   Context-sensitive syntax respected by the tables: the typedef name T is declared by the
   prelude of every root; `_Atomic` directly followed by `(` is the type specifier (C11
   6.7.2.4p4); identifier lists occur only in function declarators of definitions; a
   declaration without declarators needs a tag (6.7p2).                                  *)
EXTENDS Naturals, Sequences, TLC, FiniteSets, Json
CONSTANTS Fuel,
          RootSet     \* the root contexts of this run (subset of RootNames)
VARIABLES stack, toks, fuel, feat
vars == <<stack, toks, fuel, feat>>
T(s) == <<"T", s>>
N(nt, p) == <<"N", nt, p>>
P(n, c, r) == [n |-> n, c |-> c, r |-> r]

\* ---------- expressions: levels 1 comma 2 assign 3 cond 4..13 binary 14 cast 15 unary 16 postfix 17 primary
BinOpsAt == [l \in 4..13 |-> CASE l = 4 -> "||" [] l = 5 -> "&&" [] l = 6 -> "|" [] l = 7 -> "^" [] l = 8 -> "&"
                              [] l = 9 -> "==" [] l = 10 -> "<" [] l = 11 -> "<<" [] l = 12 -> "+" [] l = 13 -> "*"]
E(l) == N("expr", l)
ExprProds ==
  { P("id", 0, <<T("a")>>) , P("const", 1, <<T("1")>>), P("str", 1, <<T("\"s\"")>>), P("strcat", 1, <<T("\"s\""), T("\"t\"")>>),
    P("charc", 1, <<T("'c'")>>), P("float", 1, <<T("1.5")>>) }
  \cup { [n |-> "bin" \o BinOpsAt[l], c |-> 1, lvl |-> l, r |-> <<E(l), T(BinOpsAt[l]), E(l+1)>>] : l \in 4..13 }
  \cup { [n |-> "assign", c |-> 1, lvl |-> 2, r |-> <<E(15), T("="), E(2)>>],
         [n |-> "opassign", c |-> 1, lvl |-> 2, r |-> <<E(15), T("+="), E(2)>>],
         [n |-> "cond", c |-> 1, lvl |-> 3, r |-> <<E(4), T("?"), E(1), T(":"), E(3)>>],
         [n |-> "comma", c |-> 1, lvl |-> 1, r |-> <<E(1), T(","), E(2)>>],
         [n |-> "cast", c |-> 1, lvl |-> 14, r |-> <<T("("), N("typename", 0), T(")"), E(14)>>],
         [n |-> "preinc", c |-> 1, lvl |-> 15, r |-> <<T("++"), E(15)>>],
         [n |-> "unary*", c |-> 1, lvl |-> 15, r |-> <<T("*"), E(14)>>],
         [n |-> "unary&", c |-> 1, lvl |-> 15, r |-> <<T("&"), E(14)>>],
         [n |-> "unary-", c |-> 1, lvl |-> 15, r |-> <<T("-"), E(14)>>],
         [n |-> "unary!", c |-> 1, lvl |-> 15, r |-> <<T("!"), E(14)>>],
         [n |-> "sizeofe", c |-> 1, lvl |-> 15, r |-> <<T("sizeof"), E(15)>>],
         [n |-> "sizeoft", c |-> 1, lvl |-> 15, r |-> <<T("sizeof"), T("("), N("typename", 0), T(")")>>],
         [n |-> "alignof", c |-> 1, lvl |-> 15, r |-> <<T("_Alignof"), T("("), N("typename", 0), T(")")>>],
         [n |-> "index", c |-> 1, lvl |-> 16, r |-> <<E(16), T("["), E(1), T("]")>>],
         [n |-> "call0", c |-> 1, lvl |-> 16, r |-> <<E(16), T("("), T(")")>>],
         [n |-> "call2", c |-> 1, lvl |-> 16, r |-> <<E(16), T("("), E(2), T(","), E(2), T(")")>>],
         [n |-> "member", c |-> 1, lvl |-> 16, r |-> <<E(16), T("."), T("m")>>],
         [n |-> "arrow", c |-> 1, lvl |-> 16, r |-> <<E(16), T("->"), T("m")>>],
         [n |-> "postinc", c |-> 1, lvl |-> 16, r |-> <<E(16), T("++")>>],
         [n |-> "complit", c |-> 1, lvl |-> 16, r |-> <<T("("), N("typename", 0), T(")"), T("{"), N("initlist", 0), T("}")>>],
         [n |-> "paren", c |-> 1, lvl |-> 17, r |-> <<T("("), E(1), T(")")>>] }
LvlOf(p) == IF "lvl" \in DOMAIN p THEN p.lvl ELSE 17
ExprAlts(m) == { [n |-> p.n, c |-> p.c, r |-> (IF LvlOf(p) < m THEN <<T("(")>> \o p.r \o <<T(")")>> ELSE p.r)] : p \in ExprProds }

\* ---------- type names, specifiers, declarators
TypeSpecAlts ==
  { P("int", 0, <<T("int")>>), P("unsigned long", 1, <<T("unsigned"), T("long")>>), P("_Bool", 1, <<T("_Bool")>>),
    P("double _Complex", 1, <<T("double"), T("_Complex")>>), P("void", 1, <<T("void")>>),
    P("typedefname", 1, <<T("T")>>),
    P("structref", 1, <<T("struct"), T("S")>>),
    P("structdef", 1, <<T("struct"), T("S"), T("{"), N("structdecl", 0), T("}")>>),
    P("anonuniondef", 1, <<T("union"), T("{"), N("structdecl", 0), N("structdecl", 0), T("}")>>),
    P("enumref", 1, <<T("enum"), T("En")>>),
    P("enumdef", 1, <<T("enum"), T("{"), N("enumerator", 0), T("}")>>),
    P("enumdef2", 1, <<T("enum"), T("En"), T("{"), N("enumerator", 0), T(","), N("enumerator", 0), T(","), T("}")>>),
    P("atomicspec", 1, <<T("_Atomic"), T("("), N("atomictn", 0), T(")")>>) }
\* C11 6.7.2.4p3: the type name of an atomic type specifier is not an array, function, atomic or
\* qualified type
AtomicTNAlts == { P("atomic_int", 0, <<T("int")>>), P("atomic_ptr", 1, <<T("int"), T("*")>>),
                  P("atomic_T", 1, <<T("T")>>), P("atomic_struct", 1, <<T("struct"), T("S")>>),
                  P("atomic_fptr", 1, <<T("int"), T("("), T("*"), T(")"), T("("), T("void"), T(")")>>) }
\* a declaration without declarators declares a tag or enumerators (6.7p2)
TagSpecAlts == { P("tag_struct", 0, <<T("struct"), T("S")>>),
                 P("tag_structdef", 1, <<T("struct"), T("S"), T("{"), N("structdecl", 0), T("}")>>),
                 P("tag_uniondef", 1, <<T("union"), T("U"), T("{"), N("structdecl", 0), T("}")>>),
                 P("tag_enumdef", 1, <<T("enum"), T("En"), T("{"), N("enumerator", 0), T("}")>>),
                 P("tag_anonenum", 1, <<T("enum"), T("{"), N("enumerator", 0), T("}")>>) }
\* "qual" is a qualifier slot followed by a type specifier; "qualT" one that may be followed by a
\* declarator starting with '(' - there `_Atomic` would read as the type specifier (C11 6.7.2.4p4)
QualTAlts == { P("noqual", 0, <<>>), P("const", 1, <<T("const")>>), P("volatile", 1, <<T("volatile")>>),
               P("restrictq", 1, <<T("restrict")>>) }
QualAlts == QualTAlts \cup { P("atomicq", 1, <<T("_Atomic")>>) }
StorageAlts == { P("nostorage", 0, <<>>), P("static", 1, <<T("static")>>), P("extern", 1, <<T("extern")>>),
                 P("register", 1, <<T("register")>>), P("auto", 1, <<T("auto")>>), P("threadlocal", 1, <<T("_Thread_local")>>),
                 P("inline", 1, <<T("inline")>>), P("noreturn", 1, <<T("_Noreturn")>>),
                 P("alignas_c", 1, <<T("_Alignas"), T("("), E(3), T(")")>>),
                 P("alignas_t", 1, <<T("_Alignas"), T("("), N("typename", 0), T(")")>>) }
\* declspecs(ctx): ctx 0 = full declaration specifiers, 1 = specifier-qualifier list of a type name,
\* 2 = specifier-qualifier list of a struct member (may start with an alignment specifier, C11 6.7.2.1 as
\* amended by DR 444; in a type name gcc and C11 proper do not allow one)
DeclSpecAlts(ctx) ==
  { P("specs", 0, (IF ctx = 0 THEN <<N("storage", 0)>> ELSE IF ctx = 2 THEN <<N("salign", 0)>> ELSE <<>>) \o <<N("qual", 0), N("typespec", 0), N("qualT", 0)>>) }
\* an alignment specifier may also head the specifier-qualifier list of a struct member (C11 6.7.2.1)
SAlignAlts == { P("nosalign", 0, <<>>), P("member_alignas", 1, <<T("_Alignas"), T("("), E(3), T(")")>>) }
\* declarator(kind): 0 named, 1 abstract (possibly empty)
PtrAlts == { P("noptr", 0, <<>>), P("ptr", 1, <<T("*"), N("qualT", 0), N("ptr", 0)>>),
             P("ptr_atomic", 1, <<T("*"), T("_Atomic"), T("*")>>) }
DeclaratorAlts(kind) == { P("declarator", 0, <<N("ptr", 0), N("direct", kind)>>) }
ArrDim == { P("arr[]", 1, <<T("["), T("]")>>), P("arr[e]", 1, <<T("["), E(2), T("]")>>) }
\* qualifiers, `static` and `*` inside [ ] are confined to the outermost array derivation of a
\* function parameter (6.7.5.2p1, p4): they are productions of parameter-declaration below
ParamArr == { P("arr[static e]", 1, <<T("["), T("static"), N("qualT", 0), E(2), T("]")>>),
              P("arr[q static e]", 1, <<T("["), T("const"), T("static"), E(2), T("]")>>),
              P("arr[q]", 1, <<T("["), T("const"), T("]")>>),
              P("arr[*]", 1, <<T("["), T("*"), T("]")>>),
              P("arr[q *]", 1, <<T("["), T("volatile"), T("*"), T("]")>>),
              P("arr[q e]", 1, <<T("["), T("const"), E(2), T("]")>>) }
\* (an identifier list may only appear in the declarator of a function *definition*, 6.7.5.3p3:
\*  see funcdef_kr below)
FunSuf == { P("fun()", 1, <<T("("), T(")")>>), P("fun(params)", 1, <<T("("), N("params", 0), T(")")>>) }
DirectAlts(kind) ==
  (IF kind = 0 THEN { P("name", 0, <<T("x")>>) } ELSE { P("noname", 0, <<>>) })
  \cup { P("parendecl", 1, <<T("("), N("ptr1", 0), N("direct", kind), T(")"), N("suffix", 0)>>) }
  \cup { [n |-> s.n, c |-> 1, r |-> (IF kind = 0 THEN <<T("x")>> ELSE <<>>) \o s.r \o <<N("suffix", 0)>>] : s \in ArrDim \cup FunSuf }
SuffixAlts == { P("nosuffix", 0, <<>>) } \cup { [n |-> "more" \o s.n, c |-> 1, r |-> s.r \o <<N("suffix", 0)>>] : s \in ArrDim \cup FunSuf }
Ptr1Alts == { P("ptr1", 0, <<T("*")>>), P("ptr1none", 1, <<>>) }   \* inside parens a pointer is the default (else it is a redundant paren)
ParamsAlts == { P("param", 0, <<N("paramdecl", 0)>>), P("params2", 1, <<N("paramdecl", 0), T(","), N("paramdecl", 0)>>),
                P("paramsell", 1, <<N("paramdecl", 0), T(","), T("...")>>) }
ParamDeclAlts == { P("pnamed", 0, <<N("declspecs", 0), N("declarator", 0)>>), P("pabstract", 1, <<N("declspecs", 0), N("declarator", 1)>>) }
  \cup { [n |-> "p:" \o a.n, c |-> 1, r |-> <<N("declspecs", 0), T("x")>> \o a.r \o <<N("suffix", 0)>>] : a \in ParamArr }
  \cup { [n |-> "pabs:" \o a.n, c |-> 1, r |-> <<N("declspecs", 0)>> \o a.r \o <<N("suffix", 0)>>] : a \in ParamArr }
TypenameAlts == { P("typename", 0, <<N("declspecs", 1), N("declarator", 1)>>) }
StructDeclAlts == { P("field", 0, <<N("declspecs", 2), N("declarator", 0), T(";")>>),
                    P("fields2", 1, <<N("declspecs", 2), N("declarator", 0), T(","), N("declarator", 0), T(";")>>),
                    P("bitfield", 1, <<N("declspecs", 2), N("declarator", 0), T(":"), E(3), T(";")>>),
                    P("anonbitfield", 1, <<N("declspecs", 2), T(":"), E(3), T(";")>>),
                    P("anonmember", 1, <<T("struct"), T("{"), N("structdecl", 0), T("}"), T(";")>>),
                    P("sassert_in_struct", 1, <<N("sassert", 0)>>),
                    P("pragma_in_struct", 1, <<T("\n#pragma p\n")>>) }
EnumeratorAlts == { P("enumerator", 0, <<T("EC")>>), P("enumerator=", 1, <<T("EC"), T("="), E(3)>>) }
InitAlts == { P("init_e", 0, <<E(2)>>), P("init{}", 1, <<T("{"), N("initlist", 0), T("}")>>), P("init{,}", 1, <<T("{"), N("initlist", 0), T(","), T("}")>>) }
InitListAlts == { P("il1", 0, <<N("inititem", 0)>>), P("il2", 1, <<N("inititem", 0), T(","), N("inititem", 0)>>) }
InitItemAlts == { P("ii", 0, <<N("init", 0)>>), P("ii.m", 1, <<T("."), T("m"), T("="), N("init", 0)>>),
                  P("ii[e]", 1, <<T("["), E(3), T("]"), T("="), N("init", 0)>>),
                  P("ii[e].m", 1, <<T("["), E(3), T("]"), T("."), T("m"), T("="), N("init", 0)>>) }
SAssertAlts == { P("sassert", 0, <<T("_Static_assert"), T("("), E(3), T(","), T("\"msg\""), T(")"), T(";")>>) }
\* ---------- declarations
DeclAlts == { P("decl", 0, <<N("declspecs", 0), N("initdecl", 0), T(";")>>),
              P("decl2", 1, <<N("declspecs", 0), N("initdecl", 0), T(","), N("initdecl", 0), T(";")>>),
              P("declnodtor", 1, <<N("tagspec", 0), T(";")>>),
              \* (the typedef declares `y`, so that it never clashes with the objects named `x`)
              P("typedef", 1, <<T("typedef"), N("declspecs", 1), N("ptr", 0), T("y"), N("suffix", 0), T(";")>>),
              P("sassertdecl", 1, <<N("sassert", 0)>>) }
\* the declaration of a for statement declares objects only (6.8.5p3)
VDeclAlts == { P("vdecl", 0, <<N("declspecs", 0), N("initdecl", 0), T(";")>>),
               P("vdecl2", 1, <<N("declspecs", 0), N("initdecl", 0), T(","), N("initdecl", 0), T(";")>>) }
InitDeclAlts == { P("idecl", 0, <<N("declarator", 0)>>), P("idecl=", 1, <<N("declarator", 0), T("="), N("init", 0)>>) }
\* ---------- the typedef-name rule (6.2.1p4, 6.7.7): an inner declaration may reuse the typedef name T as the name
\* of an object or parameter; from the end of its declarator to the end of its block T is an ordinary identifier.
\* `hide` is the declared name; it is recorded in feat although it costs nothing, and TypeOfT (below) keeps the
\* productions that use T as a type out of the rest of the derivation.
HideAlts == { P("hideT", 0, <<T("T")>>) }
ShadowStmts(c) ==
  { P("shadow", 1, <<T("{"), N("declspecs", 0), N("ptr", 0), N("hide", 0), N("suffix", 0), T(";"), T("T"), T("++"), T(";"), T("}")>>),
    P("shadow=", 1, <<T("{"), N("declspecs", 0), N("ptr", 0), N("hide", 0), T("="), N("init", 0), T(";"), T("}")>>),
    P("shadow2nd", 1, <<T("{"), N("declspecs", 0), T("x"), T(","), N("ptr", 0), N("hide", 0), N("suffix", 0), T(";"), T("}")>>),
    P("shadowparen", 1, <<T("{"), N("declspecs", 0), T("("), N("hide", 0), T(")"), N("suffix", 0), T(";"), T("}")>>),
    P("shadowfor", 1, <<T("for"), T("("), N("declspecs", 0), N("ptr", 0), N("hide", 0), T("="), N("init", 0), T(";"), T(";"), T(")"), N("stmt", c)>>) }
ShadowExts ==
  { P("funcdef_hideparam", 1, <<T("void"), T("f"), T("("), N("declspecs", 0), N("ptr", 0), N("hide", 0), N("suffix", 0), T(")"), T("{"), N("items", 0), T("}")>>),
    P("funcdef_hideparam_paren", 1, <<T("void"), T("f"), T("("), N("declspecs", 0), T("("), T("*"), N("qualT", 0), N("hide", 0), T(")"), N("suffix", 0), T(")"), T("{"), N("items", 0), T("}")>>),
    P("funcdef_hideparam2", 1, <<T("void"), T("f"), T("("), T("int"), T("x"), T(","), N("declspecs", 0), N("ptr", 0), N("hide", 0), T(")"), T("{"), N("items", 0), T("}")>>) }
TypeOfT == {"typedefname", "atomic_T", "retypedef", "retypedef_in_body"}      \* productions that use T as a type

\* ---------- statements; param: 1 = must be "closed" (followed by else), 0 = free
S(c) == N("stmt", c)
StmtAlts(c) ==
  { P("empty", 0, <<T(";")>>), P("exprstmt", 1, <<E(1), T(";")>>), P("compound", 1, <<T("{"), N("items", 0), T("}")>>),
    P("ifelse", 1, <<T("if"), T("("), E(1), T(")"), S(1), T("else"), S(c)>>),
    P("while", 1, <<T("while"), T("("), E(1), T(")"), S(c)>>),
    P("do", 1, <<T("do"), S(0), T("while"), T("("), E(1), T(")"), T(";")>>),
    P("for", 1, <<T("for"), T("("), E(1), T(";"), E(1), T(";"), E(1), T(")"), S(c)>>),
    P("for;;", 1, <<T("for"), T("("), T(";"), T(";"), T(")"), S(c)>>),
    P("fordecl", 1, <<T("for"), T("("), N("vdecl", 0), E(1), T(";"), T(")"), S(c)>>),
    P("switch", 1, <<T("switch"), T("("), E(1), T(")"), S(c)>>),
    P("case", 1, <<T("case"), E(3), T(":"), S(c)>>), P("default", 1, <<T("default"), T(":"), S(c)>>),
    P("label", 1, <<T("L"), T(":"), S(c)>>),
    P("goto", 1, <<T("goto"), T("L"), T(";")>>), P("break", 1, <<T("break"), T(";")>>), P("continue", 1, <<T("continue"), T(";")>>),
    P("return", 1, <<T("return"), T(";")>>), P("returne", 1, <<T("return"), E(1), T(";")>>),
    P("pragmastmt", 1, <<T("\n#pragma p\n"), S(c)>>), P("_Pragma", 1, <<T("_Pragma"), T("("), T("\"p\""), T(")"), S(c)>>) }
  \cup (IF c = 0 THEN { P("if", 1, <<T("if"), T("("), E(1), T(")"), S(0)>>) } ELSE {})
  \cup ShadowStmts(c)
ItemsAlts == { P("retypedef", 1, <<T("{"), T("typedef"), N("declspecs", 1), N("ptr", 0), T("T"), T(";"), T("T"), T("x"), T(";"), T("}"), T("T"), T("x"), T(";"), N("item", 0)>>),
               P("item1", 0, <<N("item", 0)>>), P("items2", 1, <<N("item", 0), N("item", 0)>>), P("noitems", 1, <<>>) }
ItemAlts == { P("itemstmt", 0, <<S(0)>>), P("itemdecl", 1, <<N("decl", 0)>>) }
\* ---------- external declarations
ExtAlts == { P("extdecl", 0, <<N("decl", 0)>>),
             P("funcdef", 1, <<N("declspecs", 0), N("ptr", 0), T("f"), T("("), N("params", 0), T(")"), T("{"), N("items", 0), T("}")>>),
             P("funcdef_void", 1, <<T("void"), T("f"), T("("), T("void"), T(")"), T("{"), N("items", 0), T("}")>>),
             P("funcdef_kr", 1, <<T("int"), T("f"), T("("), T("p"), T(")"), T("int"), T("p"), T(";"), T("{"), N("items", 0), T("}")>>),
             P("funcdef_implicit", 1, <<T("f"), T("("), T(")"), T("{"), N("items", 0), T("}")>>),
             P("retypedef_in_body", 1, <<T("void"), T("f"), T("("), T("void"), T(")"), T("{"), T("typedef"), N("declspecs", 1), T("T"), T(";"), N("items", 0), T("}"), T("T"), T("x"), T(";")>>),
             P("stray;", 1, <<T(";")>>), P("filepragma", 1, <<T("\n#pragma p\n")>>) } \cup ShadowExts
TUAlts == { P("tu1", 0, <<N("ext", 0)>>), P("tu2", 1, <<N("ext", 0), N("ext", 0)>>) }

Alts(nt, p) ==
  CASE nt = "expr" -> ExprAlts(p) [] nt = "typespec" -> TypeSpecAlts [] nt = "qual" -> QualAlts [] nt = "storage" -> StorageAlts
    [] nt = "salign" -> SAlignAlts [] nt = "qualT" -> QualTAlts [] nt = "tagspec" -> TagSpecAlts [] nt = "atomictn" -> AtomicTNAlts
    [] nt = "declspecs" -> DeclSpecAlts(p) [] nt = "ptr" -> PtrAlts [] nt = "ptr1" -> Ptr1Alts [] nt = "declarator" -> DeclaratorAlts(p)
    [] nt = "direct" -> DirectAlts(p) [] nt = "suffix" -> SuffixAlts [] nt = "params" -> ParamsAlts [] nt = "paramdecl" -> ParamDeclAlts
    [] nt = "typename" -> TypenameAlts [] nt = "structdecl" -> StructDeclAlts [] nt = "enumerator" -> EnumeratorAlts
    [] nt = "init" -> InitAlts [] nt = "initlist" -> InitListAlts [] nt = "inititem" -> InitItemAlts [] nt = "sassert" -> SAssertAlts
    [] nt = "decl" -> DeclAlts [] nt = "vdecl" -> VDeclAlts [] nt = "initdecl" -> InitDeclAlts [] nt = "stmt" -> StmtAlts(p) [] nt = "items" -> ItemsAlts
    [] nt = "item" -> ItemAlts [] nt = "hide" -> HideAlts [] nt = "ext" -> ExtAlts [] nt = "tu" -> TUAlts

Prelude == <<T("typedef"), T("int"), T("T"), T(";")>>
RootNames == {"tu", "ext", "item", "exprstmt", "init", "struct", "param", "typename"}
RootOf(r) == CASE r = "tu" -> <<N("tu", 0)>>
               [] r = "ext" -> <<N("ext", 0)>>
               [] r = "item" -> <<T("void"), T("f"), T("("), T("void"), T(")"), T("{"), N("item", 0), T("}")>>
               [] r = "exprstmt" -> <<T("void"), T("f"), T("("), T("void"), T(")"), T("{"), E(1), T(";"), T("}")>>
               [] r = "init" -> <<T("int"), T("x"), T("="), N("init", 0), T(";")>>
               [] r = "struct" -> <<T("struct"), T("S"), T("{"), N("structdecl", 0), T("}"), T(";")>>
               [] r = "param" -> <<T("void"), T("f"), T("("), N("paramdecl", 0), T(")"), T(";")>>
               [] r = "typename" -> <<T("int"), T("x"), T("="), T("sizeof"), T("("), N("typename", 0), T(")"), T(";")>>
Roots == { Prelude \o RootOf(r) : r \in RootSet }
Init == stack \in Roots /\ toks = <<>> /\ fuel = Fuel /\ feat = <<>>
Expand == /\ stack # <<>> /\ Head(stack)[1] = "N"
          /\ \E a \in Alts(Head(stack)[2], Head(stack)[3]) :
               /\ a.c <= fuel /\ fuel' = fuel - a.c
               /\ (a.n \in TypeOfT => \A i \in DOMAIN feat : feat[i] # "hideT")
               \* (an object T declared in the scope in which the body re-typedefs T would be a redeclaration)
               /\ (a.n = "hideT" => \A i \in DOMAIN feat : feat[i] # "retypedef_in_body")
               /\ stack' = a.r \o Tail(stack)
               /\ feat' = IF a.c > 0 \/ a.n = "hideT" THEN Append(feat, a.n) ELSE feat
          /\ UNCHANGED toks
Emit == /\ stack # <<>> /\ Head(stack)[1] = "T"
        /\ toks' = Append(toks, Head(stack)[2]) /\ stack' = Tail(stack) /\ UNCHANGED <<fuel, feat>>
Next == Expand \/ Emit
Spec == Init /\ [][Next]_vars
Export == (stack = <<>>) => PrintT("@@" \o ToJson([toks |-> toks, feat |-> feat]))
====
