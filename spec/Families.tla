------------------------------ MODULE Families ------------------------------
(* Scalable input families (C16): every way the grammar can be pumped.

   `Pumps` is the self-embedding structure of the C grammar written as data: a pump
   [from, to, pre, post] says "a hole of nonterminal `src` can be filled by  pre  <hole of
   nonterminal `dst`>  post".  A cycle of pumps (src_1 -> ... -> src_1) applied k times is a
   family of inputs whose depth (nesting pumps) or length (repetition pumps, post or pre
   empty and the hole at an end) grows linearly with k.  TLC enumerates every simple cycle up to
   MaxCycle pumps - every recursive construct alone, and every nesting of two or three different
   constructs, e.g. type-name -> array bound -> expression -> compound literal -> type-name -
   and exports it with the base filler of its nonterminal and a root context.  The harness
   instantiates each family at sizes k, 2k, 4k, 8k and measures deterministic work.

   Flat families: `Lists` names the list constructs of the grammar; TLC pairs each with every item
   spelling (and, for MaxMix = 2, with every ordered pair of different spellings, alternated);
   the harness repeats the items k times inside the construct.  Work that is quadratic in the
   LENGTH of a list (re-scanning the rest of a parameter list for every abstract declarator, say)
   shows here and nowhere in the nesting families.

   CycleClosed and Simple are the obvious sanity invariants of the enumeration; the property
   the families serve is stated on the token stream: ParserTrace.ReconsumptionBound (no token
   index consumed more than R times) - which every blow-up by speculative parsing breaks.   *)
EXTENDS Naturals, Sequences, TLC, FiniteSets, Json

CONSTANTS Pumps,      \* sequence of [n, src, dst, pre, post]
          MaxCycle,
          Lists,      \* sequence of [n, items]: the list constructs of the grammar (parameters, arguments,
                      \* initializer items, enumerators, members, declarators, block items, external declarations)
                      \* and the number of item spellings each is to be filled with
          MaxMix      \* a flat list repeats one item spelling (1) or alternates two different ones (2)
VARIABLES cyc,       \* sequence of pump indices
          lst        \* <<>> or <<list index, item index (, second item index)>>: a FLAT family - length, not depth
vars == <<cyc, lst>>

P(i) == Pumps[i]
Init == cyc = <<>> /\ lst = <<>>
Extend == /\ Len(cyc) < MaxCycle /\ lst = <<>> /\ UNCHANGED lst
          /\ \E i \in 1..Len(Pumps) :
               /\ (IF cyc = <<>> THEN TRUE ELSE P(cyc[Len(cyc)]).dst = P(i).src)
               /\ (\A j \in 1..Len(cyc) : cyc[j] # i)                          \* simple: no pump twice
               /\ cyc' = Append(cyc, i)
ChooseList == /\ cyc = <<>> /\ lst = <<>> /\ UNCHANGED cyc
              /\ \E l \in 1..Len(Lists) : \E i \in 1..Lists[l].items : lst' = <<l, i>>
Mix == /\ Len(lst) = 2 /\ MaxMix >= 2 /\ UNCHANGED cyc
       /\ \E j \in 1..Lists[lst[1]].items : j # lst[2] /\ lst' = Append(lst, j)
Next == Extend \/ ChooseList \/ Mix
Spec == Init /\ [][Next]_vars

Closed == IF cyc = <<>> THEN FALSE ELSE P(cyc[Len(cyc)]).dst = P(cyc[1]).src
Simple == \A a, b \in 1..Len(cyc) : a # b => cyc[a] # cyc[b]
Chained == \A j \in 1..(Len(cyc)-1) : P(cyc[j]).dst = P(cyc[j+1]).src
ListSane == lst # <<>> => (cyc = <<>> /\ \A j \in 2..Len(lst) : lst[j] \in 1..Lists[lst[1]].items)
ExportList == lst # <<>> => PrintT("@@" \o ToJson([list |-> Lists[lst[1]].n, items |-> Tail(lst)]))
Export == Closed => PrintT("@@" \o ToJson([cyc |-> cyc, names |-> [j \in 1..Len(cyc) |-> P(cyc[j]).n]]))
=============================================================================
