------------------------------- MODULE CDecl -------------------------------
(* C99 6.7 (declarations): declarators as syntax trees, their meaning by 6.7.5.1-3, and the
   AST pycparser documents for them (C03).

   A declarator is built by wrapping:  Name | Abs | Ptr(q, D) | Arr(dim, D) | Fun(p, D) | Paren(D).
   Its meaning is the derived-declarator-type-list of the standard, read off the syntax tree:
       Chain(Name) = Chain(Abs) = <<>>          Chain(Paren(D)) = Chain(D)              (6.7.5p6)
       Chain(Ptr(q, D)) = Chain(D) \o <<ptr q>>                                          (6.7.5.1)
       Chain(Arr(m, D)) = Chain(D) \o <<arr m>>                                          (6.7.5.2)
       Chain(Fun(p, D)) = Chain(D) \o <<fun p>>                                          (6.7.5.3)
   "T D" declares the identifier to be  Chain(D)[1] of Chain(D)[2] of ... of T.  The expected node
   is Decl | Typedef | Typename whose `type` nests PtrDecl / ArrayDecl / FuncDecl in that order
   down to a TypeDecl holding the base type exactly as spelled; qualifiers sit at the level they
   qualify; every declarator of a declaration gets its own node with the full, shared
   specifier lists.  A complete state is (tokens of one declaration, expected nodes).       *)
EXTENDS Naturals, Sequences, TLC, FiniteSets, Json

CONSTANTS MaxDeriv,      \* bound on derivations per declarator
          MaxDecls,      \* declarators per declaration (1..2)
          Bases,         \* subset of DOMAIN BaseTable
          SpecQuals,     \* set of qualifier sequences placed before the type specifier
          Storages,      \* set of storage / function-specifier prefixes (sequences of tokens)
          Ctxs,          \* subset of {"file","block","forinit","param","absparam","member","typedef","typename"}
          Inits,         \* subset of DOMAIN InitTable
          PtrQuals, Dims, Params, Parens   \* alphabets of the wrappers

VARIABLES ctx, base, squals, stor, d, n, done, decls, init
vars == <<ctx, base, squals, stor, d, n, done, decls, init>>

Nil == "~"
IT(names) == [k |-> "IdentifierType", names |-> names]
MemberM == [k |-> "Decl", name |-> "m", quals |-> <<>>, align |-> <<>>, storage |-> <<>>, funcspec |-> <<>>,
            type |-> [k |-> "TypeDecl", declname |-> "m", quals |-> <<>>, type |-> IT(<<"int">>)],
            init |-> Nil, bitsize |-> Nil]
Enumerator(nm, v) == [k |-> "Enumerator", name |-> nm, value |-> v]
Const(ty, v) == [k |-> "Constant", type |-> ty, value |-> v]

\* base type specifiers: tokens and the node they denote, exactly as spelled
BaseTable ==
  [ int      |-> [toks |-> <<"int">>, node |-> IT(<<"int">>), aq |-> <<>>, inner |-> <<>>],
    ulong    |-> [toks |-> <<"unsigned", "long">>, node |-> IT(<<"unsigned", "long">>), aq |-> <<>>, inner |-> <<>>],
    longlong |-> [toks |-> <<"long", "long", "int">>, node |-> IT(<<"long", "long", "int">>), aq |-> <<>>, inner |-> <<>>],
    tdef     |-> [toks |-> <<"T">>, node |-> IT(<<"T">>), aq |-> <<>>, inner |-> <<>>],
    sref     |-> [toks |-> <<"struct", "S">>, node |-> [k |-> "Struct", name |-> "S", decls |-> Nil], aq |-> <<>>, inner |-> <<>>],
    sdef     |-> [toks |-> <<"struct", "S", "{", "int", "m", ";", "}">>,
                  node |-> [k |-> "Struct", name |-> "S", decls |-> <<MemberM>>], aq |-> <<>>, inner |-> <<>>],
    udef     |-> [toks |-> <<"union", "{", "int", "m", ";", "}">>,
                  node |-> [k |-> "Union", name |-> Nil, decls |-> <<MemberM>>], aq |-> <<>>, inner |-> <<>>],
    edef     |-> [toks |-> <<"enum", "E", "{", "A", ",", "B", "=", "1", "}">>,
                  node |-> [k |-> "Enum", name |-> "E",
                            values |-> [k |-> "EnumeratorList",
                                        enumerators |-> <<Enumerator("A", Nil), Enumerator("B", Const("int", "1"))>>]],
                  aq |-> <<>>, inner |-> <<>>],
    eref     |-> [toks |-> <<"enum", "E">>, node |-> [k |-> "Enum", name |-> "E", values |-> Nil], aq |-> <<>>, inner |-> <<>>],
    \* C11 6.7.2.4: _Atomic(T) means the _Atomic-qualified T: the qualifier lands on the type T names - on the
    \* specifier level for a plain T (aq), on T's own pointer derivation, which becomes the innermost one (inner)
    atomic_int |-> [toks |-> <<"_Atomic", "(", "int", ")">>, node |-> IT(<<"int">>), aq |-> <<"_Atomic">>, inner |-> <<>>],
    atomic_T   |-> [toks |-> <<"_Atomic", "(", "T", ")">>, node |-> IT(<<"T">>), aq |-> <<"_Atomic">>, inner |-> <<>>],
    atomic_ptr |-> [toks |-> <<"_Atomic", "(", "int", "*", ")">>, node |-> IT(<<"int">>), aq |-> <<>>,
                    inner |-> << [k |-> "ptr", q |-> <<"_Atomic">>] >>],
    \* _Atomic pointer to function: the type name's own derivations (pointer, then function with its parameter list)
    \* follow the declarator's, and every declarator of the declaration gets them anew
    atomic_fptr |-> [toks |-> <<"_Atomic", "(", "int", "(", "*", ")", "(", "int", "p", ",", "...", ")", ")">>, node |-> IT(<<"int">>), aq |-> <<>>,
                     inner |-> << [k |-> "ptr", q |-> <<"_Atomic">>], [k |-> "fun", p |-> "int_p_ell"] >>] ]

\* ---- declarator syntax trees
IsDirect(x) == x.k \in {"name", "abs", "paren", "arr", "fun"}
RECURSIVE Named(_)
Named(x) == IF x.k \in {"name"} THEN TRUE ELSE IF x.k = "abs" THEN FALSE ELSE Named(x.d)

DimToks(m) == CASE m = "none" -> <<>> [] m = "3" -> <<"3">> [] m = "static3" -> <<"static", "3">>
                [] m = "const" -> <<"const">> [] m = "conststatic3" -> <<"const", "static", "3">>
                [] m = "star" -> <<"*">> [] m = "const3" -> <<"const", "3">> [] m = "n" -> <<"n">>
DimNode(m) == CASE m \in {"none", "const"} -> Nil [] m = "star" -> [k |-> "ID", name |-> "*"]
                [] m = "n" -> [k |-> "ID", name |-> "n"] [] OTHER -> Const("int", "3")
DimQuals(m) == CASE m = "static3" -> <<"static">> [] m = "const" -> <<"const">> [] m = "conststatic3" -> <<"const", "static">>
                 [] m = "const3" -> <<"const">> [] OTHER -> <<>>
AbsInt(nm) == [k |-> "Typename", name |-> Nil, quals |-> <<>>,
               type |-> [k |-> "TypeDecl", declname |-> Nil, quals |-> <<>>, type |-> IT(<<nm>>)]]
NamedInt(nm) == [k |-> "Decl", name |-> nm, quals |-> <<>>, align |-> <<>>, storage |-> <<>>, funcspec |-> <<>>,
                 type |-> [k |-> "TypeDecl", declname |-> nm, quals |-> <<>>, type |-> IT(<<"int">>)],
                 init |-> Nil, bitsize |-> Nil]
PL(ps) == [k |-> "ParamList", params |-> ps]
ParToks(p) == CASE p = "empty" -> <<>> [] p = "void" -> <<"void">> [] p = "int" -> <<"int">>
                [] p = "int_p" -> <<"int", "p">> [] p = "int_char" -> <<"int", ",", "char">>
                [] p = "int_p_ell" -> <<"int", "p", ",", "...">> [] p = "T" -> <<"T">>
ParNode(p) == CASE p = "empty" -> Nil [] p = "void" -> PL(<<AbsInt("void")>>) [] p = "int" -> PL(<<AbsInt("int")>>)
                [] p = "int_p" -> PL(<<NamedInt("p")>>) [] p = "int_char" -> PL(<<AbsInt("int"), AbsInt("char")>>)
                [] p = "int_p_ell" -> PL(<<NamedInt("p"), [k |-> "EllipsisParam"]>>)
                \* a lone typedef name in parentheses is a parameter type list (6.7.6.3p11), never a parenthesised name
                [] p = "T" -> PL(<<AbsInt("T")>>)

RECURSIVE Chain(_), Toks(_, _)
Chain(x) == CASE x.k \in {"name", "abs"} -> <<>>
              [] x.k = "paren" -> Chain(x.d)
              [] x.k = "ptr"   -> Chain(x.d) \o << [k |-> "ptr", q |-> x.q] >>
              [] x.k = "arr"   -> Chain(x.d) \o << [k |-> "arr", dim |-> x.dim] >>
              [] x.k = "fun"   -> Chain(x.d) \o << [k |-> "fun", p |-> x.p] >>
Toks(x, nm) == CASE x.k = "name"  -> <<nm>>
                 [] x.k = "abs"   -> <<>>
                 [] x.k = "paren" -> <<"(">> \o Toks(x.d, nm) \o <<")">>
                 [] x.k = "ptr"   -> <<"*">> \o x.q \o Toks(x.d, nm)
                 [] x.k = "arr"   -> Toks(x.d, nm) \o <<"[">> \o DimToks(x.dim) \o <<"]">>
                 [] x.k = "fun"   -> Toks(x.d, nm) \o <<"(">> \o ParToks(x.p) \o <<")">>

RECURSIVE Nest(_, _, _)
Nest(ch, i, td) ==
  IF i > Len(ch) THEN td
  ELSE LET m == ch[i]  inner == Nest(ch, i+1, td) IN
       CASE m.k = "ptr" -> [k |-> "PtrDecl", quals |-> m.q, type |-> inner]
         [] m.k = "arr" -> [k |-> "ArrayDecl", type |-> inner, dim |-> DimNode(m.dim), dim_quals |-> DimQuals(m.dim)]
         [] m.k = "fun" -> [k |-> "FuncDecl", args |-> ParNode(m.p), type |-> inner]

\* ---- initializers
InitTable ==
  [ none   |-> [toks |-> <<>>, node |-> Nil],
    scalar |-> [toks |-> <<"=", "1">>, node |-> Const("int", "1")],
    braces |-> [toks |-> <<"=", "{", "1", ",", "2", "}">>,
                node |-> [k |-> "InitList", exprs |-> <<Const("int", "1"), Const("int", "2")>>]],
    trailing |-> [toks |-> <<"=", "{", "1", ",", "}">>, node |-> [k |-> "InitList", exprs |-> <<Const("int", "1")>>]],
    empty  |-> [toks |-> <<"=", "{", "}">>, node |-> [k |-> "InitList", exprs |-> <<>>]],
    desig  |-> [toks |-> <<"=", "{", ".", "m", "=", "1", ",", "[", "2", "]", "=", "3", "}">>,
                node |-> [k |-> "InitList",
                          exprs |-> << [k |-> "NamedInitializer", name |-> << [k |-> "ID", name |-> "m"] >>, expr |-> Const("int", "1")],
                                       [k |-> "NamedInitializer", name |-> << Const("int", "2") >>, expr |-> Const("int", "3")] >>]],
    nested |-> [toks |-> <<"=", "{", "{", "1", "}", ",", ".", "m", "[", "0", "]", "=", "{", "2", "}", "}">>,
                node |-> [k |-> "InitList",
                          exprs |-> << [k |-> "InitList", exprs |-> <<Const("int", "1")>>],
                                       [k |-> "NamedInitializer", name |-> << [k |-> "ID", name |-> "m"], Const("int", "0") >>,
                                        expr |-> [k |-> "InitList", exprs |-> <<Const("int", "2")>>]] >>]],
    bits   |-> [toks |-> <<":", "3">>, node |-> Const("int", "3")] ]      \* bit-field width (member context)

\* ---- the machine: choose context, specifiers, then build declarators one wrapper at a time
Abstract == ctx \in {"typename", "absparam"}      \* absparam: an unnamed parameter of a prototype
Start == IF Abstract THEN [k |-> "abs"] ELSE [k |-> "name"]
DeclName(i) == IF i = 1 THEN "x" ELSE "y"

Init == /\ ctx \in Ctxs /\ base \in Bases /\ squals \in SpecQuals
        /\ (base \in {"atomic_ptr", "atomic_fptr"} => squals = <<>>)     \* (qualifiers next to _Atomic(pointer): recorded finding of C07)
        /\ stor \in (IF ctx \in {"file", "block"} THEN Storages ELSE {<<>>})
        /\ d = Start
        /\ n = 0 /\ done = FALSE /\ decls = <<>> /\ init = "none"

OuterParamArr(x) == x.k \in {"name", "abs"}      \* static / qualifiers / * only in the outermost array of a parameter
WrapPtr   == \E q \in PtrQuals : d' = [k |-> "ptr", q |-> q, d |-> d]
WrapArr   == IsDirect(d) /\ \E m \in Dims :
                /\ (m \in {"static3", "const", "conststatic3", "star", "const3"} => ctx \in {"param", "absparam"} /\ OuterParamArr(d))
                /\ (m = "n" => ctx \in {"block", "param", "absparam", "forinit"})
                /\ d' = [k |-> "arr", dim |-> m, d |-> d]
WrapFun   == IsDirect(d) /\ \E p \in Params : d' = [k |-> "fun", p |-> p, d |-> d]
\* ( declarator ) : not around an empty abstract declarator ("()" is a function), not doubled
WrapParen == Parens /\ d.k \notin {"paren", "abs"} /\ d' = [k |-> "paren", d |-> d]
Wrap == /\ ~done /\ n < MaxDeriv /\ n' = n + 1
        /\ (WrapPtr \/ WrapArr \/ WrapFun \/ WrapParen)
        /\ UNCHANGED <<ctx, base, squals, stor, done, decls, init>>

\* 6.7.5.3p1 / 6.7.5.2p1 as far as syntax trees are concerned: no function returning function or
\* array, no array of functions (gcc rejects them; pycparser does not care)
RECURSIVE SaneChain(_, _)
SaneChain(ch, i) == IF i >= Len(ch) THEN TRUE
                    ELSE /\ ~(ch[i].k = "fun" /\ ch[i+1].k \in {"fun", "arr"})
                         /\ ~(ch[i].k = "arr" /\ ch[i+1].k = "fun")
                         /\ SaneChain(ch, i+1)
\* close the current declarator, with an initializer where the context admits one
Close == /\ ~done /\ Len(decls) < MaxDecls
         /\ SaneChain(Chain(d), 1)
         /\ (IF ctx = "member" /\ Chain(d) # <<>> THEN Chain(d)[1].k # "fun" ELSE TRUE)   \* no function members
         /\ \E it \in Inits :
              /\ (it \in {"scalar", "braces", "trailing", "empty", "desig", "nested"} =>
                     ctx \in {"file", "block", "forinit"} /\ "typedef" \notin {stor[j] : j \in 1..Len(stor)}
                     /\ (IF Chain(d) = <<>> THEN TRUE ELSE Chain(d)[1].k # "fun"))
              /\ (it = "bits" => ctx = "member" /\ Chain(d) = <<>>)
              /\ decls' = Append(decls, [d |-> d, init |-> it])
         /\ d' = Start /\ n' = 0
         /\ UNCHANGED <<ctx, base, squals, stor, done, init>>
Finish == /\ ~done /\ Len(decls) >= 1 /\ d = Start /\ n = 0
          /\ (ctx \in {"param", "typename", "absparam"} => Len(decls) = 1)
          /\ done' = TRUE /\ UNCHANGED <<ctx, base, squals, stor, d, n, decls, init>>
Next == Wrap \/ Close \/ Finish
Spec == Init /\ [][Next]_vars

\* ---- tokens and expected nodes of the finished declaration
IsTypedef == ctx = "typedef" \/ \E j \in 1..Len(stor) : stor[j] = "typedef"
StorageOf == SelectSeq((IF ctx = "typedef" THEN <<"typedef">> ELSE <<>>) \o stor,
                       LAMBDA t : t \in {"typedef", "static", "extern", "register", "auto", "_Thread_local"})
FuncSpecOf == SelectSeq(stor, LAMBDA t : t \in {"inline", "_Noreturn"})
SpecToks == (IF ctx = "typedef" THEN <<"typedef">> ELSE <<>>) \o stor \o squals \o BaseTable[base].toks
RECURSIVE DeclToks(_)
DeclToks(i) == IF i > Len(decls) THEN <<>>
               ELSE (IF i > 1 THEN <<",">> ELSE <<>>) \o Toks(decls[i].d, DeclName(i)) \o InitTable[decls[i].init].toks \o DeclToks(i+1)
AllToks == SpecToks \o DeclToks(1)

Node(i) ==
  LET dd == decls[i]
      nm == IF Named(dd.d) THEN DeclName(i) ELSE Nil
      qs == squals \o BaseTable[base].aq
      td == [k |-> "TypeDecl", declname |-> nm, quals |-> qs, type |-> BaseTable[base].node]
      ty == Nest(Chain(dd.d) \o BaseTable[base].inner, 1, td)
  IN IF Abstract \/ (ctx = "param" /\ ~Named(dd.d))
     THEN [k |-> "Typename", name |-> Nil, quals |-> qs, type |-> ty]
     ELSE IF IsTypedef
     THEN [k |-> "Typedef", name |-> nm, quals |-> qs, storage |-> StorageOf, type |-> ty]
     ELSE [k |-> "Decl", name |-> nm, quals |-> qs, align |-> <<>>, storage |-> StorageOf, funcspec |-> FuncSpecOf,
           type |-> ty,
           init |-> IF dd.init = "bits" THEN Nil ELSE InitTable[dd.init].node,
           bitsize |-> IF dd.init = "bits" THEN InitTable["bits"].node ELSE Nil]

\* ---- properties of the specification itself
\* the implementation order of the splice (pointer prefix applied after the suffixes of the same
\* level, parentheses innermost first) yields the same chain as the standard's reading
RECURSIVE ImplChain(_)
ImplChain(x) == CASE x.k \in {"name", "abs"} -> <<>>
                  [] x.k = "paren" -> ImplChain(x.d)
                  [] x.k = "ptr" -> ImplChain(x.d) \o << [k |-> "ptr", q |-> x.q] >>     \* _type_modify_decl(direct, ptr): ptr goes to the tail
                  [] x.k = "arr" -> ImplChain(x.d) \o << [k |-> "arr", dim |-> x.dim] >>
                  [] x.k = "fun" -> ImplChain(x.d) \o << [k |-> "fun", p |-> x.p] >>
SpliceAgrees == ImplChain(d) = Chain(d)
\* the number of derivations equals the number of wrappers that are not parentheses
RECURSIVE Derivs(_)
Derivs(x) == CASE x.k \in {"name", "abs"} -> 0 [] x.k = "paren" -> Derivs(x.d) [] OTHER -> 1 + Derivs(x.d)
ChainLength == Len(Chain(d)) = Derivs(d)

Export == done => PrintT("@@" \o ToJson([ctx |-> ctx, toks |-> AllToks, nodes |-> [i \in 1..Len(decls) |-> Node(i)],
                                          base |-> base]))
=============================================================================
