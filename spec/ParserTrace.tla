---------------------------- MODULE ParserTrace ----------------------------
(* One CParser.parse() call as a composition of four machines, validated event by event
   against the hooks' trace (code -> spec):

     CLex0      the lexer cursor (Call): every token the parser receives must be exactly what the
                cursor machine yields on the raw text, with typedef classification given by
     ScopeImpl  the scope table as pycparser maintains it: scopes follow *lexed* braces
                (push/pop fire inside token()), names are registered when a declaration is
                *reduced* (reg), identifiers are classified when *lexed* (look);
     TokStream  the buffer of already lexed - and already classified - tokens with its
                consume index: next / reset;
     Brackets   the open-bracket stack over the tokens in lex order.

   State invariants are conjoined to the action that could break them, so that one broken
   invariant rejects one trace (see DESIGN.md 4.4):
     LexedOnce            buf grows only by tok events, one per token() call, in order
     IndexInRange         0 <= idx <= Len(buf); only lexed tokens are consumed
     ResetBackwards       reset only moves the index back
     ReconsumptionBound   no token index is consumed more than R times              (C16)
     LookupIsInnermost    a lookup answers with the innermost binding               (C04)
     ClassFrozenAtLex     the class of an ID/TYPEID token is the lookup made for it (C04)
     LookaheadSafe        in an accepted program a name is never registered while a token with that
                          spelling and the OTHER class (ID for a typedef, TYPEID for an object)
                          sits unconsumed in the buffer                             (C04)
     ScopeBraceAgreement  #scopes = 1 + #'{' lexed - #'}' lexed after every token      (C04,C18)
     RegisterClash        a registration raises iff the scope holds the other kind
     FreshStart           parse() starts from the initial front-end state           (C12)
     SingleErrorChannel   the call ends with a FileAST or with ParseError
                          (RecursionError tolerated)                                (C06)
     AcceptedIsWellFormed accepted => brackets balanced and never mismatched, every token
                          consumed, no '#' directive token, scope stack back to 1   (C18)   *)
EXTENDS CLex0, IOUtils, Json, TLC

CONSTANT R

Traces == JsonDeserialize(IOEnv.TRACES)

VARIABLES tid, l, buf, idx, uses, stk, brk, bd, pend, lst, eof, failed, errloc, unsafe
pvars == <<tid, l, buf, idx, uses, stk, brk, bd, pend, lst, eof, failed, errloc, unsafe>>

T    == Traces[tid]
Ev   == T.ev[l]
More == l <= Len(T.ev)
Is(e) == More /\ Ev.e = e
Adv  == l' = l + 1 /\ UNCHANGED tid

RECURSIVE Lookup(_, _, _)
Lookup(s, i, nm) == IF i = 0 THEN FALSE
                    ELSE IF <<nm, TRUE>> \in s[i] THEN TRUE
                    ELSE IF <<nm, FALSE>> \in s[i] THEN FALSE ELSE Lookup(s, i-1, nm)
NamesIn(s) == UNION { { x[1] : x \in s[i] } : i \in 1..Len(s) }
TypeNames(s) == { nm \in NamesIn(s) : Lookup(s, Len(s), nm) }

OpenB  == {"LPAREN", "LBRACKET", "LBRACE"}
CloseB == [RPAREN |-> "LPAREN", RBRACKET |-> "LBRACKET", RBRACE |-> "LBRACE"]
BracketStep(b, ty) ==
  IF ty \in OpenB THEN Append(b, ty)
  ELSE IF ty \in DOMAIN CloseB
       THEN (IF b # <<>> /\ b[Len(b)] = CloseB[ty] THEN SubSeq(b, 1, Len(b)-1) ELSE Append(b, "MISMATCH"))
  ELSE b

PInit == /\ tid \in 1..Len(Traces) /\ l = 1
         /\ buf = <<>> /\ idx = 0 /\ uses = <<>> /\ stk = << {} >> /\ brk = <<>> /\ bd = 0
         /\ pend = <<"none">> /\ eof = FALSE /\ failed = FALSE /\ errloc = <<>> /\ unsafe = FALSE
         /\ lst = InitState(Traces[tid].file)

\* FreshStart (C12): the lexer state logged right after parse() re-initialised it
Begin == /\ Is("begin") /\ l = 1
         /\ Ev.st.pos = 0 /\ Ev.st.line = 1 /\ Ev.st.lstart = 0 /\ Ev.st.file = T.file /\ Ev.st.pend = <<>>
         /\ Adv /\ UNCHANGED <<buf, idx, uses, stk, brk, bd, pend, lst, eof, failed, errloc, unsafe>>

Push == /\ Is("push") /\ ~failed /\ pend = <<"none">>
        /\ stk' = Append(stk, {}) /\ Ev.d = Len(stk) + 1
        /\ pend' = <<"brace", "LBRACE">>
        /\ Adv /\ UNCHANGED <<buf, idx, uses, brk, bd, lst, eof, failed, errloc, unsafe>>
Pop  == /\ Is("pop") /\ ~failed /\ pend = <<"none">>
        /\ IF Len(stk) > 1
           THEN /\ ~Ev.raised /\ stk' = SubSeq(stk, 1, Len(stk)-1) /\ Ev.d = Len(stk) - 1
                /\ pend' = <<"brace", "RBRACE">> /\ UNCHANGED failed
           ELSE /\ Ev.raised /\ failed' = TRUE /\ UNCHANGED <<stk, pend>>      \* a '}' that closes nothing
        /\ Adv /\ UNCHANGED <<buf, idx, uses, brk, bd, lst, eof, errloc, unsafe>>
Look == /\ Is("look") /\ ~failed /\ pend = <<"none">>
        /\ Ev.ans = Lookup(stk, Len(stk), Ev.name)                              \* LookupIsInnermost
        /\ pend' = <<"look", Ev.name, Ev.ans>>
        /\ Adv /\ UNCHANGED <<buf, idx, uses, stk, brk, bd, lst, eof, failed, errloc, unsafe>>

\* one token() call seen from the parser.  The cursor machine is asked with the typedef names
\* that were visible when the call started: a pending "look" already holds the answer given.
CallNow == Call(T.text, lst, TypeNames(stk))
Tok  == /\ Is("tok") /\ ~eof
        /\ IF failed
           THEN /\ Ev.exc # ""                                                   \* the callback's exception propagates
                /\ UNCHANGED <<buf, uses, brk, bd, pend, lst, eof, failed, errloc, unsafe>>
           ELSE LET r == CallNow IN
                IF r.err # <<>>
                THEN /\ Ev.exc # "" /\ Ev.errs # <<>>                             \* lexer errors raise inside parse()
                     /\ r.err[1] <= Ev.errs[1] /\ Ev.errs[1] <= r.err[2]
                     /\ failed' = TRUE /\ UNCHANGED <<buf, uses, brk, bd, pend, lst, eof>>
                     \* ErrorLocExact (C11): the logical position of the offending character
                     /\ errloc' = IF r.err[1] = r.err[2]      \* (not for malformed directive lines)
                                  THEN <<r.st.file, r.st.line, Ev.errs[1] - r.st.lstart + 1>> ELSE <<>>
                ELSE /\ Ev.exc = "" /\ Ev.errs = <<>> /\ UNCHANGED errloc
                     /\ Ev.tok = r.tok                                            \* type, spelling, line, column
                     /\ Ev.st.pos = r.st.pos /\ Ev.st.line = r.st.line /\ Ev.st.lstart = r.st.lstart
                     /\ Ev.st.file = r.st.file /\ Ev.st.pend = r.st.pend
                     /\ lst' = r.st
                     /\ IF r.tok = <<>>
                        THEN /\ pend = <<"none">> /\ eof' = TRUE
                             /\ buf' = Append(buf, <<"EOF", "">>) /\ uses' = Append(uses, 0)
                             /\ UNCHANGED <<brk, bd, pend, failed>>
                        ELSE /\ CASE r.tok[1] = "LBRACE" -> pend = <<"brace", "LBRACE">>
                                  [] r.tok[1] = "RBRACE" -> pend = <<"brace", "RBRACE">>
                                  [] r.tok[1] \in {"ID", "TYPEID"} ->              \* ClassFrozenAtLex
                                       pend = <<"look", r.tok[2], r.tok[1] = "TYPEID">>
                                  [] OTHER -> pend = <<"none">>
                             /\ pend' = <<"none">>
                             /\ buf' = Append(buf, <<r.tok[1], r.tok[2]>>) /\ uses' = Append(uses, 0)
                             /\ brk' = BracketStep(brk, r.tok[1])
                             /\ bd' = IF r.tok[1] = "LBRACE" THEN bd + 1 ELSE IF r.tok[1] = "RBRACE" THEN bd - 1 ELSE bd
                             /\ Len(stk) = 1 + bd'                                \* ScopeBraceAgreement
                             /\ UNCHANGED <<eof, failed>>
        /\ Adv /\ UNCHANGED <<idx, stk, unsafe>>

Nxt  == /\ Is("next") /\ ~failed
        /\ Ev.ix = idx /\ idx < Len(buf)                                          \* IndexInRange
        /\ idx' = idx + 1 /\ uses' = [uses EXCEPT ![idx+1] = @ + 1]
        /\ uses'[idx+1] <= R                                                      \* ReconsumptionBound
        /\ Adv /\ UNCHANGED <<buf, stk, brk, bd, pend, lst, eof, failed, errloc, unsafe>>
Reset == /\ Is("reset") /\ ~failed
         /\ Ev.frm = idx /\ Ev.to <= idx /\ Ev.to >= 0 /\ idx' = Ev.to            \* ResetBackwards
         /\ Adv /\ UNCHANGED <<buf, uses, stk, brk, bd, pend, lst, eof, failed, errloc, unsafe>>
Reg  == /\ Is("reg") /\ ~failed /\ pend = <<"none">>
        /\ Ev.d = Len(stk) /\ Ev.ix = idx       \* (the logged buffer length is representation - an end marker may or may not be stored - and is not constrained)
        \* LookaheadSafe (judged at End): no token of that name has been lexed ahead with the OTHER class.  (A token of
        \* the same class is harmless: when '(' type-name ')' is parsed a second time after a reset, the names it
        \* declares - enumerators - are registered again while their later occurrences are already buffered.)
        /\ unsafe' = (unsafe \/ \E j \in (idx+1)..Len(buf) :
                                   buf[j][2] = Ev.name /\ buf[j][1] = (IF Ev.t THEN "ID" ELSE "TYPEID"))
        /\ IF <<Ev.name, ~Ev.t>> \in stk[Len(stk)]                                \* RegisterClash
           THEN Ev.raised /\ failed' = TRUE /\ UNCHANGED stk
           ELSE ~Ev.raised /\ stk' = [stk EXCEPT ![Len(stk)] = @ \cup {<<Ev.name, Ev.t>>}] /\ UNCHANGED failed
        /\ Adv /\ UNCHANGED <<buf, idx, uses, brk, bd, pend, lst, eof, errloc>>
\* the parser itself raised ParseError (syntax error): nothing else to check until the end
End  == /\ Is("end") /\ l = Len(T.ev)
        /\ (failed => ~Ev.ok)
        /\ (Ev.ok \/ Ev.exc \in {"ParseError", "RecursionError"})                 \* SingleErrorChannel
        /\ (Ev.ok => ~unsafe)                                                     \* LookaheadSafe: accepted programs only
        /\ (Ev.ok => /\ brk = <<>>                                                \* AcceptedIsWellFormed
                     /\ eof /\ idx = Len(buf) - 1
                     /\ Len(stk) = 1 /\ Ev.depth = 1
                     /\ \A j \in 1..Len(buf) : buf[j][1] # "PPHASH")
        /\ (~failed => Ev.ix = idx)
        /\ (errloc # <<>> =>                                                       \* ErrorLocExact (C11)
              LET pfx == errloc[1] \o ":" \o ToString(errloc[2]) \o ":" \o ToString(errloc[3]) \o ": "
              IN Len(Ev.msg) >= Len(pfx) /\ SubSeq(Ev.msg, 1, Len(pfx)) = pfx)
        /\ Adv /\ UNCHANGED <<buf, idx, uses, stk, brk, bd, pend, lst, eof, failed, errloc, unsafe>>

PNext == Begin \/ Push \/ Pop \/ Look \/ Tok \/ Nxt \/ Reset \/ Reg \/ End
PSpec == PInit /\ [][PNext]_pvars

Acc  == (l = Len(T.ev) + 1) => PrintT(<<"ACC", tid>>)
Diag == PrintT(<<"AT", tid, l, failed>>)
MaxUse == (l = Len(T.ev) + 1) =>
            PrintT(<<"USES", tid, IF uses = <<>> THEN 0 ELSE CHOOSE m \in 0..R : (\E i \in 1..Len(uses) : uses[i] = m) /\ \A i \in 1..Len(uses) : uses[i] <= m>>)
=============================================================================
