------------------------------ MODULE Pipeline ------------------------------
(* parse_file(use_cpp=True) as a three-stage pipeline (C19):

     Argv(cfg)     the command line handed to the preprocessor - exactly
                   <<cpp_path>> \o args \o <<filename>> with  args = cpp_args  when it is a list,
                   <<>> when it is the empty string and <<cpp_args>> (ONE element) otherwise
     Preprocess    an uninterpreted function of the argv (the external cpp)
     Parse         CParser.parse(text, filename)

   The configuration space Header x Dialect x ArgForm is finite; TLC enumerates it and exports,
   for every configuration, the argv parse_file has to produce.  The harness runs the real
   parse_file with a recording stand-in for cpp_path and compares argv, then checks that the
   result equals preprocessing and parsing by hand and that every typedef name the fake headers
   define is a type afterwards.                                                             *)
EXTENDS Naturals, Sequences, TLC, FiniteSets, Json

CONSTANTS Headers, Dialects, IncDir, CppPath
VARIABLES cfg
vars == <<cfg>>

ArgForms == {"str", "list"}
Init == cfg \in [h : Headers, d : Dialects, f : ArgForms]
Next == UNCHANGED cfg

\* cpp_args as the caller passes it: a single string carries one option only
CppArgs(c) == IF c.f = "list" THEN <<"-std=" \o c.d, "-nostdinc", "-I" \o IncDir>> ELSE "-I" \o IncDir
IsList(a) == DOMAIN a = 1..Len(a) /\ a # ""          \* (strings are sequences too; "" is the empty one)
Argv(c, file) == <<CppPath>> \o (IF c.f = "list" THEN CppArgs(c) ELSE IF CppArgs(c) = "" THEN <<>> ELSE <<CppArgs(c)>>) \o <<file>>

ArgvWellFormed == /\ Argv(cfg, "t.c")[1] = CppPath
                  /\ Argv(cfg, "t.c")[Len(Argv(cfg, "t.c"))] = "t.c"
                  /\ Len(Argv(cfg, "t.c")) = (IF cfg.f = "list" THEN 5 ELSE 3)
Export == PrintT("@@" \o ToJson([h |-> cfg.h, d |-> cfg.d, f |-> cfg.f, argv |-> Argv(cfg, "<FILE>")]))
=============================================================================
