------------------------------- MODULE CLex0 -------------------------------
(* The lexer cursor machine: what one CLexer.token() call does to
     pos, line, lstart, file, pend   (= _pos, _lineno, _line_start, _filename, _pending_tok)
   written from C99 5.1.1.2 / 6.4 / 6.10.4 / 6.10.6 and gcc's linemarker format, not from the
   Python.  One token() call = the silent prefix (blanks, newlines, well-formed line
   directives) followed by exactly one of
     DeliverPending | EmitToken | EmitPragma | EmitHash | EndOfInput | ReportError.
   The machine is exact up to the first reported error; afterwards (state "err") only
   progress is required (the properties do not say how far an error rule skips).

   Deviations of pycparser from the standard, named:
     DevLineNumberNoLeadingZero   "#line 010" is rejected (6.10.4 allows any digit-sequence)
     DevDirectiveAnywhere         a '#' starts a directive wherever it appears between tokens,
                                  not only at the start of a line
     DevDirectiveNeedsNewline     "#pragma"/"#line" immediately followed by end of input is
                                  not a directive (a source file ends in a newline, 5.1.1.2)   *)
EXTENDS CLiterals, TLC, Json

WordChar == Lower \cup Upper \cup Digit \cup {"_"}

\* ---------------------------------------------------------------- directives (p = just after '#')
IsLineDir(s, p) == LET q == While(s, p, Blank) IN
                   \/ (StartsWith(s, q, "line") /\ q + 4 < Len(s) /\ Ch(s, q+4) \notin WordChar)
                   \/ Ch(s, q) \in Digit
IsPragma(s, p)  == LET q == While(s, p, Blank) IN
                   StartsWith(s, q, "pragma") /\ q + 6 < Len(s) /\ Ch(s, q+6) \notin WordChar

RECURSIVE ToNat(_, _)
ToNat(w, acc) == IF w = "" THEN acc
                 ELSE ToNat(SubSeq(w, 2, Len(w)),
                            acc * 10 + (CHOOSE d \in 0..9 : SubSeq("0123456789", d+1, d+1) = SubSeq(w, 1, 1)))
RECURSIVE LStripQ(_)
LStripQ(w) == IF w # "" /\ SubSeq(w, 1, 1) = "\"" THEN LStripQ(SubSeq(w, 2, Len(w))) ELSE w
RECURSIVE RStripQ(_)
RStripQ(w) == IF w # "" /\ SubSeq(w, Len(w), Len(w)) = "\"" THEN RStripQ(SubSeq(w, 1, Len(w)-1)) ELSE w

\* a line-number / flag token: "0" or [1-9][0-9]*, optionally with an integer suffix (which makes
\* a line number invalid but is tolerated on flags)
DecEnd(s, q) == IF Ch(s, q) = "0" THEN q+1 ELSE IF Ch(s, q) \in NonZero THEN While(s, q+1, Digit) ELSE -1
RECURSIVE FlagsOK(_, _, _)
FlagsOK(s, q, eol) == LET a == While(s, q, Blank) IN
                      IF a >= eol THEN TRUE
                      ELSE LET d == DecEnd(s, a) IN IF d = -1 THEN FALSE ELSE FlagsOK(s, SuffixEnd(s, d), eol)

\* "# [line] N ["file" [flags]]" : [ok, n, hasfile, f, eol]
LineDir(s, p) ==
  LET eol == Until(s, p, {"\n"})
      q0  == While(s, p, Blank)
      q1  == IF StartsWith(s, q0, "line") THEN While(s, q0+4, Blank) ELSE q0
      d   == DecEnd(s, q1)
      bad == [ok |-> FALSE, n |-> 0, hasfile |-> FALSE, f |-> "", eol |-> eol]
  IN IF q1 >= eol \/ d = -1 \/ SuffixEnd(s, d) # d THEN bad
     ELSE LET q3 == While(s, d, Blank) IN
          IF q3 >= eol THEN [ok |-> TRUE, n |-> ToNat(Sub(s, q1, d), 0), hasfile |-> FALSE, f |-> "", eol |-> eol]
          ELSE IF Ch(s, q3) # "\"" THEN bad
          ELSE LET e == StrBodyEnd(s, q3+1) IN
               IF e = -1 \/ ~FlagsOK(s, e, eol) THEN bad
               ELSE [ok |-> TRUE, n |-> ToNat(Sub(s, q1, d), 0), hasfile |-> TRUE,
                     f |-> RStripQ(LStripQ(Sub(s, q3, e))), eol |-> eol]

\* ---------------------------------------------------------------- the silent prefix of a call
RECURSIVE Skip(_, _, _, _, _)
Skip(s, p, ln, ls, f) ==
  IF p >= Len(s) THEN [k |-> "eof", pos |-> p, line |-> ln, lstart |-> ls, file |-> f, eol |-> p]
  ELSE LET c == Ch(s, p) IN
  IF c \in Blank THEN Skip(s, p+1, ln, ls, f)
  ELSE IF c = "\n" THEN Skip(s, p+1, ln+1, p+1, f)
  ELSE IF c = "#" THEN
       IF IsLineDir(s, p+1)
       THEN LET d == LineDir(s, p+1) IN
            IF d.ok THEN Skip(s, d.eol+1, d.n, d.eol+1, IF d.hasfile THEN d.f ELSE f)   \* the next line is line N
            ELSE [k |-> "linebad", pos |-> p, line |-> ln, lstart |-> ls, file |-> f, eol |-> d.eol]
       ELSE IF IsPragma(s, p+1) THEN [k |-> "pragma", pos |-> p, line |-> ln, lstart |-> ls, file |-> f, eol |-> p]
       ELSE [k |-> "hash", pos |-> p, line |-> ln, lstart |-> ls, file |-> f, eol |-> p]
  ELSE [k |-> "tok", pos |-> p, line |-> ln, lstart |-> ls, file |-> f, eol |-> p]

\* ---------------------------------------------------------------- one token() call
\* st = [pos, line, lstart, file, pend]; result [st, tok, err] with tok = <<ty, val, line, col>> or <<>>
\* (end of input) and err = <<>> or <<lo, hi>>: an error must be reported at an offset in lo..hi
\* during this call (then tok is irrelevant and exactness ends).
Call(s, st, Types) ==
  IF st.pend # <<>>
  THEN [st |-> [st EXCEPT !.pend = <<>>], tok |-> st.pend, err |-> <<>>, start |-> -1]       \* DeliverPending
  ELSE
  LET r  == Skip(s, st.pos, st.line, st.lstart, st.file)
      b  == [pos |-> r.pos, line |-> r.line, lstart |-> r.lstart, file |-> r.file, pend |-> <<>>]
      col(x) == x - r.lstart + 1
  IN CASE r.k = "eof" -> [st |-> b, tok |-> <<>>, err |-> <<>>, start |-> -1]                 \* EndOfInput
       [] r.k = "linebad" -> [st |-> [b EXCEPT !.pos = r.eol + 1, !.lstart = r.eol + 1], tok |-> <<>>,
                              err |-> <<r.pos, r.eol>>, start |-> -1]                          \* ReportError (directive)
       [] r.k = "hash" -> [st |-> [b EXCEPT !.pos = r.pos + 1], tok |-> <<"PPHASH", "#", r.line, col(r.pos)>>,
                           err |-> <<>>, start |-> r.pos]                                       \* EmitHash
       [] r.k = "pragma" ->                                                                      \* EmitPragma
            LET w == While(s, r.pos+1, Blank)
                a == While(s, w+6, Blank)
                e == Until(s, a, {"\n"})
                nl == e < Len(s)
            IN [st |-> [pos |-> IF nl THEN e+1 ELSE e, line |-> IF nl THEN r.line+1 ELSE r.line,
                        lstart |-> IF nl THEN e+1 ELSE r.lstart, file |-> r.file,
                        pend |-> IF e > a THEN <<"PPPRAGMASTR", Sub(s, a, e), r.line, col(a)>> ELSE <<>>],
                tok |-> <<"PPPRAGMA", "pragma", r.line, col(w)>>, err |-> <<>>, start |-> w]
       [] r.k = "tok" ->
            LET t == TokenAt(s, r.pos, Types) IN
            IF t.k = "tok"
            THEN [st |-> [b EXCEPT !.pos = t.e], tok |-> <<t.ty, Sub(s, r.pos, t.e), r.line, col(r.pos)>>,
                  err |-> <<>>, start |-> r.pos]                                                \* EmitToken
            ELSE [st |-> [b EXCEPT !.pos = r.pos + 1], tok |-> <<>>, err |-> <<r.pos, r.pos>>, start |-> -1]  \* ReportError

InitState(f) == [pos |-> 0, line |-> 1, lstart |-> 0, file |-> f, pend |-> <<>>]

=============================================================================
