----------------------------- MODULE Traversal -----------------------------
(* NodeVisitor.generic_visit as an explicit-stack pre-order machine, validated against the
   recorded `visit` events of real traversals (C14, code -> spec).

   A trace is [nodes, root, visits, stop]: the node table (children by AstSchema.Children in
   order), the root id, the sequence of visited node ids and the set of class names whose
   visit_X method intercepts (no descent below them).  The machine pops the next node to visit,
   requires the next recorded visit to be exactly that node, and pushes its children unless
   its class is intercepted.  Accepted iff the stack empties exactly when the events end: every
   reachable node is visited exactly once, in pre-order, nothing else is.                   *)
EXTENDS Naturals, Sequences, TLC, Json, IOUtils

Traces == JsonDeserialize(IOEnv.TRACES)
VARIABLES tid, l, stack
tvars == <<tid, l, stack>>
T == Traces[tid]

TInit == tid \in 1..Len(Traces) /\ l = 1 /\ stack = << Traces[tid].root >>
Visit == /\ stack # <<>> /\ l <= Len(T.visits)
         /\ T.visits[l] = Head(stack)
         /\ LET n == Head(stack)
                kids == IF \E j \in 1..Len(T.stop) : T.stop[j] = T.nodes[n].k THEN <<>> ELSE T.nodes[n].kids
            IN stack' = kids \o Tail(stack)
         /\ l' = l + 1 /\ UNCHANGED tid
TNext == Visit
Acc == (stack = <<>> /\ l = Len(T.visits) + 1) => PrintT(<<"ACC", tid>>)
=============================================================================
