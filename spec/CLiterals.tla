----------------------------- MODULE CLiterals -----------------------------
(* C99 6.4 lexical grammar as scanners over a string.

   Every operator takes the text `s` and a 0-based position `p` (the convention of the code
   being specified) and returns the end position of the longest lexeme of that kind starting
   at p, or -1.  The grammars are transcribed from ISO/IEC 9899:1999 6.4.2 (identifiers),
   6.4.4.1 (integer constants), 6.4.4.2 (floating constants), 6.4.4.4 (character constants),
   6.4.5 (string literals), 6.4.6 (punctuators).  pycparser's documented extensions are
   separate, named disjuncts:
     ExtBinaryInt      0b1010                       (GNU / C23)
     ExtDollarIdent    '$' in identifiers
     ExtUnicodePrefix  u8 / u / U prefixes          (C11)
     ExtLenientEscape  any letter, any digit run and a few punctuation characters are
                       accepted after a backslash (Windows paths in #line directives)
     ExtMultiChar      'ab' .. 'abcd' are integer character constants (class INT_CONST_CHAR)
   All are TRUE in every shipped configuration; they are constants so that the deviation
   from the standard is visible.                                                          *)
EXTENDS Integers, Sequences, FiniteSets

ExtBinaryInt     == TRUE
ExtDollarIdent   == TRUE
ExtUnicodePrefix == TRUE
ExtLenientEscape == TRUE
ExtMultiChar     == TRUE

Ch(s, p)     == IF p >= 0 /\ p < Len(s) THEN SubSeq(s, p+1, p+1) ELSE "<EOF>"
Sub(s, a, b) == SubSeq(s, a+1, b)                                 \* s[a:b]
StartsWith(s, p, w) == p + Len(w) <= Len(s) /\ Sub(s, p, p + Len(w)) = w

Digit   == {"0","1","2","3","4","5","6","7","8","9"}
NonZero == Digit \ {"0"}
OctD    == {"0","1","2","3","4","5","6","7"}
HexD    == Digit \cup {"a","b","c","d","e","f","A","B","C","D","E","F"}
BinD    == {"0","1"}
Lower   == {"a","b","c","d","e","f","g","h","i","j","k","l","m","n","o","p","q","r","s","t","u","v","w","x","y","z"}
Upper   == {"A","B","C","D","E","F","G","H","I","J","K","L","M","N","O","P","Q","R","S","T","U","V","W","X","Y","Z"}
IdStart == Lower \cup Upper \cup {"_"} \cup (IF ExtDollarIdent THEN {"$"} ELSE {})
IdCont  == IdStart \cup Digit
Blank   == {" ", "\t"}

RECURSIVE While(_, _, _)
While(s, p, S) == IF Ch(s, p) \in S THEN While(s, p+1, S) ELSE p
RECURSIVE Until(_, _, _)
Until(s, p, S) == IF p >= Len(s) \/ Ch(s, p) \in S THEN p ELSE Until(s, p+1, S)

Max(a, b) == IF a >= b THEN a ELSE b

\* ---- 6.4.2.1 identifiers
IdentEnd(s, p) == IF Ch(s, p) \in IdStart THEN While(s, p+1, IdCont) ELSE -1

\* ---- 6.4.4.1 integer-suffix: u, l, ul, lu, ll, ull, llu in either case; "lL" is not a suffix
SuffixEnd(s, p) ==
  LET c1 == Ch(s, p)  c2 == Ch(s, p+1)  c3 == Ch(s, p+2)
      U == {"u","U"}  L == {"l","L"}
  IN IF c1 \in U THEN (IF c2 \in L THEN (IF c3 = c2 THEN p+3 ELSE p+2) ELSE p+1)
     ELSE IF c1 \in L THEN (IF c2 = c1 THEN (IF c3 \in U THEN p+3 ELSE p+2)
                            ELSE IF c2 \in U THEN p+2 ELSE p+1)
     ELSE p

\* integer constant at p: [e |-> end, ty |-> class] or e = -1
IntAt(s, p) ==
  LET c == Ch(s, p)  d == Ch(s, p+1) IN
  IF c \notin Digit THEN [e |-> -1, ty |-> ""]
  ELSE IF c = "0" /\ d \in {"x","X"} /\ Ch(s, p+2) \in HexD
       THEN [e |-> SuffixEnd(s, While(s, p+2, HexD)), ty |-> "INT_CONST_HEX"]
  ELSE IF ExtBinaryInt /\ c = "0" /\ d \in {"b","B"} /\ Ch(s, p+2) \in BinD
       THEN [e |-> SuffixEnd(s, While(s, p+2, BinD)), ty |-> "INT_CONST_BIN"]
  ELSE IF c = "0" THEN [e |-> SuffixEnd(s, While(s, p+1, OctD)), ty |-> "INT_CONST_OCT"]
  ELSE [e |-> SuffixEnd(s, While(s, p+1, Digit)), ty |-> "INT_CONST_DEC"]

\* listed malformed kind: an octal constant continued by 8 or 9 (and not a floating constant)
BadOctalAt(s, p) == Ch(s, p) = "0" /\ Ch(s, While(s, p+1, OctD)) \in {"8","9"}

\* ---- 6.4.4.2 floating constants
\* exponent-part at q with marker set M: end, or q when there is none
ExpEnd(s, q, M) ==
  IF Ch(s, q) \in M
  THEN LET t == IF Ch(s, q+1) \in {"+","-"} THEN q+2 ELSE q+1
           u == While(s, t, Digit)
       IN IF u > t THEN u ELSE q
  ELSE q
FSuffixEnd(s, q) == IF Ch(s, q) \in {"f","F","l","L"} THEN q+1 ELSE q

DecFloatEnd(s, p) ==
  LET d1 == While(s, p, Digit) IN
  IF Ch(s, d1) = "."
  THEN LET d2 == While(s, d1+1, Digit) IN
       IF d1 > p \/ d2 > d1+1 THEN FSuffixEnd(s, ExpEnd(s, d2, {"e","E"})) ELSE -1
  ELSE IF d1 > p /\ ExpEnd(s, d1, {"e","E"}) > d1 THEN FSuffixEnd(s, ExpEnd(s, d1, {"e","E"}))
  ELSE -1

HexFloatEnd(s, p) ==
  IF ~(Ch(s, p) = "0" /\ Ch(s, p+1) \in {"x","X"}) THEN -1
  ELSE LET h1 == While(s, p+2, HexD)
           h2 == IF Ch(s, h1) = "." THEN While(s, h1+1, HexD) ELSE h1
           ok == IF Ch(s, h1) = "." THEN (h1 > p+2 \/ h2 > h1+1) ELSE h1 > p+2
           x  == ExpEnd(s, h2, {"p","P"})
       IN IF ok /\ x > h2 THEN FSuffixEnd(s, x) ELSE -1          \* binary exponent is mandatory

\* ---- 6.4.4.4 escape sequences and character constants
SimpleEscStrict  == {"'", "\"", "?", "\\", "a", "b", "f", "n", "r", "t", "v"}
SimpleEscLenient == (Lower \cup Upper \cup {".", "_", "~", "!", "=", "&", "^", "-", "\\", "?", "'", "\""})
\* end of the escape sequence whose backslash is at p, or -1
EscEnd(s, p) ==
  LET c == Ch(s, p+1) IN
  IF c = "x" THEN (IF Ch(s, p+2) \in HexD THEN While(s, p+2, HexD)
                   ELSE IF ExtLenientEscape THEN p+2 ELSE -1)
  ELSE IF c \in Digit
       THEN (IF ExtLenientEscape THEN While(s, p+1, Digit)
             ELSE IF c \in OctD THEN LET o == While(s, p+1, OctD) IN (IF o > p+4 THEN p+4 ELSE o) ELSE -1)
  ELSE IF c \in (IF ExtLenientEscape THEN SimpleEscLenient ELSE SimpleEscStrict) THEN p+2
  ELSE -1
\* one c-char at p
CCharEnd(s, p) ==
  LET c == Ch(s, p) IN
  IF c = "\\" THEN EscEnd(s, p)
  ELSE IF c \in {"'", "\n", "<EOF>"} THEN -1 ELSE p+1
\* character constant whose opening quote is at q: [e, n] with n the number of c-chars
CharBodyAt(s, q) ==
  LET e1 == CCharEnd(s, q+1) IN
  IF e1 = -1 THEN [e |-> -1, n |-> 0]
  ELSE IF Ch(s, e1) = "'" THEN [e |-> e1+1, n |-> 1]
  ELSE LET e2 == CCharEnd(s, e1) IN
  IF e2 = -1 THEN [e |-> -1, n |-> 0]
  ELSE IF Ch(s, e2) = "'" THEN [e |-> e2+1, n |-> 2]
  ELSE LET e3 == CCharEnd(s, e2) IN
  IF e3 = -1 THEN [e |-> -1, n |-> 0]
  ELSE IF Ch(s, e3) = "'" THEN [e |-> e3+1, n |-> 3]
  ELSE LET e4 == CCharEnd(s, e3) IN
  IF e4 = -1 THEN [e |-> -1, n |-> 0]
  ELSE IF Ch(s, e4) = "'" THEN [e |-> e4+1, n |-> 4]
  ELSE [e |-> -1, n |-> 0]

\* ---- 6.4.5 string literals: s-char is any character but " \ newline, or an escape sequence.
\* In strings an escape is recognised by its first character only (what follows is ordinary
\* s-chars anyway), so hex/octal runs need no special treatment.
StrEscOK(s, p) == Ch(s, p+1) \in (IF ExtLenientEscape THEN SimpleEscLenient \cup Digit
                                  ELSE SimpleEscStrict \cup OctD \cup {"x"})
RECURSIVE StrBodyEnd(_, _)
\* p is just after the opening quote; returns position after the closing quote or -1
StrBodyEnd(s, p) ==
  LET c == Ch(s, p) IN
  IF c = "\"" THEN p+1
  ELSE IF c \in {"\n", "<EOF>"} THEN -1
  ELSE IF c = "\\" THEN (IF StrEscOK(s, p) THEN StrBodyEnd(s, p+2) ELSE -1)
  ELSE StrBodyEnd(s, p+1)

\* prefix table: spelling -> (string class, char class)
Prefixes == << <<"", "STRING_LITERAL", "CHAR_CONST">>, <<"L", "WSTRING_LITERAL", "WCHAR_CONST">> >>
            \o (IF ExtUnicodePrefix THEN << <<"u8", "U8STRING_LITERAL", "U8CHAR_CONST">>,
                                            <<"u", "U16STRING_LITERAL", "U16CHAR_CONST">>,
                                            <<"U", "U32STRING_LITERAL", "U32CHAR_CONST">> >> ELSE <<>>)

\* quoted literal at p (with optional prefix): [e, ty], e = -1 when none
QuotedAt(s, p) ==
  LET cands == { r \in { LET pre == Prefixes[i][1]  q == p + Len(pre) IN
                         IF ~StartsWith(s, p, pre) THEN [e |-> -1, ty |-> ""]
                         ELSE IF Ch(s, q) = "\"" THEN [e |-> StrBodyEnd(s, q+1), ty |-> Prefixes[i][2]]
                         ELSE IF Ch(s, q) = "'" THEN
                              LET b == CharBodyAt(s, q) IN
                              IF b.n = 1 THEN [e |-> b.e, ty |-> Prefixes[i][3]]
                              ELSE IF b.n > 1 /\ pre = "" /\ ExtMultiChar THEN [e |-> b.e, ty |-> "INT_CONST_CHAR"]
                              ELSE [e |-> -1, ty |-> ""]
                         ELSE [e |-> -1, ty |-> ""]
                       : i \in 1..Len(Prefixes) } : r.e # -1 }
  IN IF cands = {} THEN [e |-> -1, ty |-> ""]
     ELSE CHOOSE r \in cands : \A r2 \in cands : r2.e <= r.e

\* ---- 6.4.6 punctuators (pycparser's 46: no digraphs, no # / ## which belong to the preprocessor)
Punct3 == [ s \in {"...", "<<=", ">>="} |-> CASE s = "..." -> "ELLIPSIS" [] s = "<<=" -> "LSHIFTEQUAL" [] s = ">>=" -> "RSHIFTEQUAL" ]
Punct2 == [ s \in {"++","--","->","&&","||","<<",">>","<=",">=","==","!=","*=","/=","%=","+=","-=","&=","|=","^="} |->
            CASE s = "++" -> "PLUSPLUS" [] s = "--" -> "MINUSMINUS" [] s = "->" -> "ARROW" [] s = "&&" -> "LAND"
              [] s = "||" -> "LOR" [] s = "<<" -> "LSHIFT" [] s = ">>" -> "RSHIFT" [] s = "<=" -> "LE" [] s = ">=" -> "GE"
              [] s = "==" -> "EQ" [] s = "!=" -> "NE" [] s = "*=" -> "TIMESEQUAL" [] s = "/=" -> "DIVEQUAL"
              [] s = "%=" -> "MODEQUAL" [] s = "+=" -> "PLUSEQUAL" [] s = "-=" -> "MINUSEQUAL" [] s = "&=" -> "ANDEQUAL"
              [] s = "|=" -> "OREQUAL" [] s = "^=" -> "XOREQUAL" ]
Punct1 == [ s \in {"=","+","-","*","/","%","|","&","~","^","!","<",">","?","(",")","[","]","{","}",",",".",";",":"} |->
            CASE s = "=" -> "EQUALS" [] s = "+" -> "PLUS" [] s = "-" -> "MINUS" [] s = "*" -> "TIMES" [] s = "/" -> "DIVIDE"
              [] s = "%" -> "MOD" [] s = "|" -> "OR" [] s = "&" -> "AND" [] s = "~" -> "NOT" [] s = "^" -> "XOR"
              [] s = "!" -> "LNOT" [] s = "<" -> "LT" [] s = ">" -> "GT" [] s = "?" -> "CONDOP" [] s = "(" -> "LPAREN"
              [] s = ")" -> "RPAREN" [] s = "[" -> "LBRACKET" [] s = "]" -> "RBRACKET" [] s = "{" -> "LBRACE"
              [] s = "}" -> "RBRACE" [] s = "," -> "COMMA" [] s = "." -> "PERIOD" [] s = ";" -> "SEMI" [] s = ":" -> "COLON" ]
PunctAt(s, p) ==
  IF p + 3 <= Len(s) /\ Sub(s, p, p+3) \in DOMAIN Punct3 THEN [e |-> p+3, ty |-> Punct3[Sub(s, p, p+3)]]
  ELSE IF p + 2 <= Len(s) /\ Sub(s, p, p+2) \in DOMAIN Punct2 THEN [e |-> p+2, ty |-> Punct2[Sub(s, p, p+2)]]
  ELSE IF p + 1 <= Len(s) /\ Sub(s, p, p+1) \in DOMAIN Punct1 THEN [e |-> p+1, ty |-> Punct1[Sub(s, p, p+1)]]
  ELSE [e |-> -1, ty |-> ""]

\* ---- 6.4.1 keywords (C99 + the C11 ones pycparser documents + its two extensions)
Keywords == {"auto","break","case","char","const","continue","default","do","double","else","enum","extern",
             "float","for","goto","if","inline","int","long","register","restrict","return","short","signed",
             "sizeof","static","struct","switch","typedef","union","unsigned","void","volatile","while",
             "_Bool","_Complex","_Noreturn","_Thread_local","_Static_assert","_Atomic","_Alignof","_Alignas",
             "_Pragma", "__int128", "offsetof"}
RECURSIVE UpperCase(_)
UpChar(c) == IF c \in Lower THEN LET i == CHOOSE i \in 1..26 : SubSeq("abcdefghijklmnopqrstuvwxyz", i, i) = c
                                 IN SubSeq("ABCDEFGHIJKLMNOPQRSTUVWXYZ", i, i)
             ELSE c
UpperCase(w) == IF w = "" THEN "" ELSE UpChar(SubSeq(w, 1, 1)) \o UpperCase(SubSeq(w, 2, Len(w)))
KeywordClass(w) == UpperCase(w)        \* the token class of a keyword is its spelling in upper case

\* ---- listed malformed starts
CommentAt(s, p) == StartsWith(s, p, "/*") \/ StartsWith(s, p, "//")

\* ---- the longest well-formed token at p (6.4p4, "maximal munch"): [k, e, ty]
\*   k = "tok"  a token of class ty ends at e
\*   k = "bad"  a listed malformed construct starts at p (bad octal, comment, bad quote) or the
\*              character cannot start any token: an error must be reported at p
TokenAt(s, p, Types) ==
  LET fl  == DecFloatEnd(s, p)
      hf  == HexFloatEnd(s, p)
      it  == IntAt(s, p)
      id  == IdentEnd(s, p)
      q   == QuotedAt(s, p)
      pu  == PunctAt(s, p)
      fe  == Max(fl, hf)
      num == IF fe > it.e THEN [e |-> fe, ty |-> IF hf >= fl THEN "HEX_FLOAT_CONST" ELSE "FLOAT_CONST"] ELSE it
      w   == Sub(s, p, id)
      idr == IF id = -1 THEN [e |-> -1, ty |-> ""]
             ELSE [e |-> id, ty |-> IF w \in Keywords THEN KeywordClass(w) ELSE IF w \in Types THEN "TYPEID" ELSE "ID"]
      best == CHOOSE r \in {num, idr, q, pu} : \A r2 \in {num, idr, q, pu} : r2.e <= r.e
  IN IF CommentAt(s, p) THEN [k |-> "bad", e |-> p+1, ty |-> "comment"]
     ELSE IF fe = -1 /\ BadOctalAt(s, p) /\ ~(it.ty \in {"INT_CONST_HEX", "INT_CONST_BIN"})
          THEN [k |-> "bad", e |-> p+1, ty |-> "badoctal"]
     ELSE IF best.e = -1 THEN [k |-> "bad", e |-> p+1, ty |-> IF Ch(s, p) \in {"'", "\""} THEN "badquote" ELSE "illegal"]
     ELSE [k |-> "tok", e |-> best.e, ty |-> best.ty]

\* whole-string classification used by the literal checks (C10)
ClassOf(s, Types) == LET t == TokenAt(s, 0, Types) IN IF t.k = "tok" /\ t.e = Len(s) THEN t.ty ELSE "NONE"
IsLiteralClass(ty) == ty \in {"INT_CONST_DEC","INT_CONST_OCT","INT_CONST_HEX","INT_CONST_BIN","INT_CONST_CHAR",
                              "FLOAT_CONST","HEX_FLOAT_CONST","CHAR_CONST","WCHAR_CONST","U8CHAR_CONST","U16CHAR_CONST",
                              "U32CHAR_CONST","STRING_LITERAL","WSTRING_LITERAL","U8STRING_LITERAL","U16STRING_LITERAL",
                              "U32STRING_LITERAL"}

\* the Constant.type a literal's spelling implies (6.4.4.1p5 collapsed to pycparser's names)
RECURSIVE CountIn(_, _)
CountIn(w, S) == IF w = "" THEN 0 ELSE (IF SubSeq(w, 1, 1) \in S THEN 1 ELSE 0) + CountIn(SubSeq(w, 2, Len(w)), S)
ConstantType(ty, w) ==
  CASE ty \in {"INT_CONST_DEC","INT_CONST_OCT","INT_CONST_HEX","INT_CONST_BIN"} ->
         LET core == IF ty = "INT_CONST_HEX" THEN While(w, 2, HexD) ELSE IF ty = "INT_CONST_BIN" THEN While(w, 2, BinD)
                     ELSE While(w, 0, Digit)
             suf  == Sub(w, core, Len(w))
             u    == CountIn(suf, {"u","U"})
             l    == CountIn(suf, {"l","L"})
         IN (IF u = 1 THEN "unsigned " ELSE "") \o (IF l = 2 THEN "long long " ELSE IF l = 1 THEN "long " ELSE "") \o "int"
    [] ty = "INT_CONST_CHAR" -> "int"
    [] ty \in {"FLOAT_CONST","HEX_FLOAT_CONST"} ->
         LET c == SubSeq(w, Len(w), Len(w)) IN
         IF c \in {"f","F"} THEN "float" ELSE IF c \in {"l","L"} THEN "long double" ELSE "double"
    [] ty \in {"CHAR_CONST","WCHAR_CONST","U8CHAR_CONST","U16CHAR_CONST","U32CHAR_CONST"} -> "char"
    [] OTHER -> "string"
=============================================================================
