------------------------------ MODULE GenTrace ------------------------------
(* CGenerator's only mutable state - indent_level - as a machine, validated against the recorded
   generator events of real visits (C12 and C07, code -> spec).

   A trace is the event sequence of ONE CGenerator instance over any number of top-level visits:
     enter  [ind]            a top-level visit(node) begins with indent_level = ind
     block  [ind0, ind1]     a construct that indents its body (compound statement, struct / union /
                             enum body, sub-statement of if / loops / labels) found indent_level = ind0
                             and left it at ind1
     leave  [ind, raised]    the top-level visit returns (or raises) with indent_level = ind
   The machine: a fresh generator starts at 0; a visit begins where the previous one ended; every
   block restores the level it found (BlockRestores) and never works left of the visit's own level
   (NotLeftOfVisit; the width of a step is the generator's business); a visit that does not raise ends at the level at which it began
   (VisitRestores).  Consequently (ReuseFresh) a generator that has only completed successful
   visits is at level 0 - it is indistinguishable from a fresh one, which is what C12 states for
   the generator.  A visit that raises may leave any level behind (the property is silent there);
   the machine adopts the level the code reports.                                             *)
EXTENDS Naturals, Integers, Sequences, TLC, Json, IOUtils

Traces == JsonDeserialize(IOEnv.TRACES)
VARIABLES tid, l, ind, top, dirty, clean
gvars == <<tid, l, ind, top, dirty, clean>>
T == Traces[tid]
E == T.ev[l]
NoVisit == 0 - 1

GInit == /\ tid \in 1..Len(Traces) /\ l = 1 /\ ind = 0 /\ top = NoVisit /\ dirty = FALSE /\ clean = TRUE
Enter == /\ l <= Len(T.ev) /\ E.e = "enter" /\ top = NoVisit
         /\ E.ind = ind                      \* nothing moved the level between two visits
         /\ (clean => ind = 0)               \* ReuseFresh
         /\ top' = ind /\ dirty' = FALSE /\ l' = l + 1 /\ UNCHANGED <<tid, ind, clean>>
Block == /\ l <= Len(T.ev) /\ E.e = "block" /\ top # NoVisit
         /\ (~dirty => E.ind0 >= top)                                     \* NotLeftOfVisit
         /\ dirty' = (dirty \/ E.ind0 # E.ind1)                           \* BlockRestores is judged at Leave
         /\ l' = l + 1 /\ UNCHANGED <<tid, ind, top, clean>>
Leave == /\ l <= Len(T.ev) /\ E.e = "leave" /\ top # NoVisit
         /\ (~E.raised => (E.ind = top /\ ~dirty))                        \* VisitRestores, BlockRestores
         /\ ind' = E.ind /\ top' = NoVisit /\ dirty' = FALSE
         /\ clean' = (clean /\ ~E.raised)
         /\ l' = l + 1 /\ UNCHANGED tid
GNext == Enter \/ Block \/ Leave
Acc == (l = Len(T.ev) + 1 /\ top = NoVisit) => PrintT(<<"ACC", tid>>)
\* deepest event reached (diagnosis of a rejected trace)
Diag == PrintT(<<"AT", tid, l>>)
=============================================================================
