------------------------------- MODULE Scope -------------------------------
(* C99 6.2.1 (scopes of identifiers) + 6.2.3 (name spaces) for ordinary identifiers, as a
   machine over *program items*.  `env` is a stack of maps name -> {"none","type","ord"};
   a name enters env at the end of its declarator (6.2.1p7); IsType(n) is "the innermost
   visible binding of n is a typedef".  Tags, members and labels live in other name spaces
   (6.2.3) and never touch env.  A history ends with a Probe(n) item that records the class
   the standard gives n at that point; the harness renders the history as C text and asks
   the parser the same question with four probe shapes.

   Named deviation (stated by the property): ExtProtoParamsInvisible - parameter names of a
   function *declaration* (prototype scope, 6.2.1p4) never bind anything.

   Alongside the truth the machine carries `envD`, the table pycparser's *mechanism* (ScopeImpl:
   scopes follow lexed braces, names are registered when a declaration is reduced) arrives
   at, with each place where that mechanism departs from 6.2.1 as a named deviation:
     DevForInitLeaks      a for-init declaration is registered in the enclosing block
     DevKRParamsAtFile    K&R parameter declarations are registered at file scope
     DevEnumNonLastLost   every enumerator but the last is registered in the scope opened by
                          the enum's own '{' and vanishes at its '}'
     DevEnumInStructLost  an enumerator declared inside a struct body vanishes with the body
     DevTypeidNotAName    an enumerator or a label spelled like a visible typedef name is
                          rejected (the lexer has already classified it TYPEID)
   TLC checks  NoDeviationItem => envD = env  (the mechanism refines the truth on the rest of
   the language); on the code, a probe that disagrees with the truth is a known finding only
   if it agrees with envD and the history contains the deviation item that explains it.    *)
EXTENDS Naturals, Sequences, TLC, FiniteSets, Json

CONSTANTS Names, MaxItems, MaxDepth,
          Kinds        \* the item kinds enabled in this instance

VARIABLES env,    \* stack of [Names -> {"none","type","ord"}], env[1] = file scope
          where,  \* 0 = file scope, d > 0 = inside the function body at block depth d
          prog,   \* history of items
          funcs,  \* function definitions opened so far (at most one)
          envD,   \* the table as pycparser's mechanism builds it (see header)
          rej     \* the mechanism rejects the program (DevTypeidNotAName / a clash it perceives)
vars == <<env, where, prog, funcs, envD, rej>>

Empty == [n \in Names |-> "none"]
RECURSIVE Lookup(_, _, _)
Lookup(e, i, n) == IF i = 0 THEN "none" ELSE IF e[i][n] # "none" THEN e[i][n] ELSE Lookup(e, i-1, n)
IsType(n) == Lookup(env, Len(env), n) = "type"
IsTypeD(n) == Lookup(envD, Len(envD), n) = "type"
Cur == env[Len(env)]
CurD == envD[Len(envD)]
\* truth binding; the mechanism binds too, and perceives a clash when its current scope already
\* holds the name with the other kind
BindD(n, k) == /\ envD' = [envD EXCEPT ![Len(envD)] = [@ EXCEPT ![n] = k]]
               /\ rej' = (rej \/ (CurD[n] # "none" /\ CurD[n] # k))
Bind(n, k) == env' = [env EXCEPT ![Len(env)] = [@ EXCEPT ![n] = k]] /\ BindD(n, k)
SameD == UNCHANGED <<envD, rej>>
Item(it) == prog' = Append(prog, it)
Room == Len(prog) < MaxItems
On(k) == k \in Kinds

Init == env = <<Empty>> /\ where = 0 /\ prog = <<>> /\ funcs = 0 /\ envD = <<Empty>> /\ rej = FALSE

\* ---- declarations that bind an ordinary identifier in the current scope (6.2.1p4, p7).
\* A second declaration of the same name in the same scope is a constraint violation unless both
\* are typedefs of the same type or both are compatible object/function declarations: the
\* machine only generates first declarations per scope.
TypedefDecl(n) == On("typedef") /\ Room /\ Cur[n] = "none" /\ Bind(n, "type") /\ Item(<<"typedef", n>>) /\ UNCHANGED <<where, funcs>>
ObjDecl(n)     == On("obj") /\ Room /\ Cur[n] = "none" /\ Bind(n, "ord") /\ Item(<<"obj", n>>) /\ UNCHANGED <<where, funcs>>
FuncDecl(n)    == On("fdecl") /\ Room /\ Cur[n] = "none" /\ Bind(n, "ord") /\ Item(<<"fdecl", n>>) /\ UNCHANGED <<where, funcs>>
EnumConst(n)   == /\ On("enum") /\ Room /\ Cur[n] = "none" /\ Item(<<"enum", n>>) /\ UNCHANGED <<where, funcs>>
                  /\ env' = [env EXCEPT ![Len(env)] = [@ EXCEPT ![n] = "ord"]]
                  /\ IF IsTypeD(n) THEN rej' = TRUE /\ UNCHANGED envD                 \* DevTypeidNotAName
                     ELSE BindD(n, "ord")                                               \* the last enumerator lands right
\* two enumerators in one list: both are bound in the scope that *contains* the enum specifier
EnumPair(n)    == /\ On("enum2") /\ Room /\ Cur[n] = "none" /\ Item(<<"enum2", n>>) /\ UNCHANGED <<where, funcs>>
                  /\ env' = [env EXCEPT ![Len(env)] = [@ EXCEPT ![n] = "ord"]]
                  /\ rej' = (rej \/ IsTypeD(n)) /\ UNCHANGED envD                     \* DevEnumNonLastLost
\* an enumerator declared inside a struct body belongs to the enclosing scope (a struct body is
\* not a scope for ordinary identifiers)
EnumInStruct(n) == /\ On("enumS") /\ Room /\ Cur[n] = "none" /\ Item(<<"enumS", n>>) /\ UNCHANGED <<where, funcs>>
                   /\ env' = [env EXCEPT ![Len(env)] = [@ EXCEPT ![n] = "ord"]]
                   /\ rej' = (rej \/ IsTypeD(n)) /\ UNCHANGED envD                    \* DevEnumInStructLost
\* ---- other name spaces (6.2.3): no effect on env
Member(n)      == On("member") /\ Room /\ Item(<<"member", n>>) /\ UNCHANGED <<env, where, funcs>> /\ SameD
Tag(n)         == On("tag") /\ Room /\ Item(<<"tag", n>>) /\ UNCHANGED <<env, where, funcs>> /\ SameD
Label(n)       == /\ On("label") /\ Room /\ where > 0 /\ Item(<<"label", n>>) /\ UNCHANGED <<env, where, funcs, envD>>
                  /\ rej' = (rej \/ IsTypeD(n))                                         \* DevTypeidNotAName
\* ---- constructs with braces that open no scope for ordinary identifiers, and speculatively parsed constructs
\* (struct / union bodies inside type names of casts, sizeof and compound literals, initializer braces, enum and
\* struct definitions): nothing is bound, nothing is hidden - whatever the mechanism does while reading them
\* (which of them is the renderer's choice: they are all the same step of this machine)
Noise          == On("noise") /\ Room /\ Item(<<"noise">>) /\ UNCHANGED <<env, where, funcs>> /\ SameD
\* ---- prototype scope ends with the declarator (6.2.1p4): nothing is bound afterwards
ProtoParam(n)  == On("proto") /\ Room /\ Item(<<"proto", n>>) /\ UNCHANGED <<env, where, funcs>> /\ SameD
\* ---- a for-init declaration's scope is the loop only (6.8.5p5): nothing is bound afterwards
ForInit(n)     == /\ On("forinit") /\ Room /\ where > 0 /\ Item(<<"forinit", n>>) /\ UNCHANGED <<env, where, funcs>>
                  /\ BindD(n, "ord")                                                     \* DevForInitLeaks
\* ---- an object declared inside initializer braces does not exist; a *use* inside initializer
\* braces or inside a struct body sees the enclosing scope (braces that are not blocks)
ProbeInInit(n) == On("probeI") /\ Room /\ Item(<<"probeI", n, IsType(n), IsTypeD(n)>>) /\ UNCHANGED <<env, where, funcs>> /\ SameD
ProbeInStruct(n) == On("probeS") /\ Room /\ Item(<<"probeS", n, IsType(n), IsTypeD(n)>>) /\ UNCHANGED <<env, where, funcs>> /\ SameD
\* ---- function definitions: parameters live in the body's block scope (6.2.1p4)
OpenFunc(n)    == On("func") /\ Room /\ where = 0 /\ funcs = 0
                  /\ env' = Append(env, [Empty EXCEPT ![n] = "ord"]) /\ where' = 1 /\ funcs' = 1
                  /\ envD' = Append(envD, [Empty EXCEPT ![n] = "ord"]) /\ UNCHANGED rej
                  /\ Item(<<"func", n>>)
OpenFuncNoPar  == On("func0") /\ Room /\ where = 0 /\ funcs = 0
                  /\ env' = Append(env, Empty) /\ where' = 1 /\ funcs' = 1 /\ Item(<<"func0">>)
                  /\ envD' = Append(envD, Empty) /\ UNCHANGED rej
\* a definition of a function NAMED n: the name is bound in the enclosing (file) scope at the end of its declarator,
\* i.e. before the body opens (6.2.1p7) - the body may use it (recursion) and an inner declaration may hide it,
\* a typedef included.  (The mechanism registers the name when the definition is complete; with at most one
\* definition per history the difference cannot be observed, so envD binds it here as well.)
OpenFuncNamed(n) == /\ On("funcN") /\ Room /\ where = 0 /\ funcs = 0 /\ Cur[n] = "none"
                    /\ env' = Append([env EXCEPT ![1] = [@ EXCEPT ![n] = "ord"]], Empty)
                    /\ envD' = Append([envD EXCEPT ![1] = [@ EXCEPT ![n] = "ord"]], Empty)
                    /\ rej' = (rej \/ (CurD[n] # "none" /\ CurD[n] # "ord"))
                    /\ where' = 1 /\ funcs' = 1 /\ Item(<<"funcN", n>>)
\* old-style definition: the declaration list declares the parameters, in the body scope
\* (6.7.5.3p11: an identifier that is a visible typedef name cannot stand in an identifier list)
OpenKRFunc(n)  == On("krfunc") /\ Room /\ where = 0 /\ funcs = 0 /\ ~IsType(n)
                  /\ env' = Append(env, [Empty EXCEPT ![n] = "ord"]) /\ where' = 1 /\ funcs' = 1
                  /\ envD' = <<[envD[1] EXCEPT ![n] = "ord"], Empty>>                      \* DevKRParamsAtFile
                  /\ rej' = (rej \/ envD[1][n] = "type")
                  /\ Item(<<"krfunc", n>>)
OpenBlock      == On("open") /\ Room /\ where > 0 /\ where < MaxDepth
                  /\ env' = Append(env, Empty) /\ where' = where + 1 /\ Item(<<"open">>) /\ UNCHANGED <<funcs, rej>>
                  /\ envD' = Append(envD, Empty)
Close          == where > 0 /\ Room /\ env' = SubSeq(env, 1, Len(env)-1) /\ where' = where - 1
                  /\ envD' = SubSeq(envD, 1, Len(envD)-1)
                  /\ Item(<<"close">>) /\ UNCHANGED <<funcs, rej>>
\* ---- the question
Probe(n)       == Room /\ Item(<<"probe", n, IsType(n), IsTypeD(n)>>) /\ UNCHANGED <<env, where, funcs>> /\ SameD

Next == \/ \E n \in Names : \/ TypedefDecl(n) \/ ObjDecl(n) \/ FuncDecl(n) \/ EnumConst(n) \/ EnumPair(n) \/ EnumInStruct(n)
                            \/ Member(n) \/ Tag(n) \/ Label(n) \/ ProtoParam(n) \/ ForInit(n)
                            \/ ProbeInInit(n) \/ ProbeInStruct(n) \/ OpenFunc(n) \/ OpenFuncNamed(n) \/ OpenKRFunc(n) \/ Probe(n)
        \/ OpenFuncNoPar \/ OpenBlock \/ Close \/ Noise
Spec == Init /\ [][Next]_vars

\* ---- properties of the specification itself
TypeOK == /\ Len(env) = where + 1 /\ where <= MaxDepth /\ Len(prog) <= MaxItems
\* a name is a type exactly when some enclosing scope typedefs it and no scope nearer does otherwise
InnermostWins ==
  \A n \in Names : IsType(n) <=> \E i \in 1..Len(env) : env[i][n] = "type" /\ \A j \in (i+1)..Len(env) : env[j][n] = "none"
\* closing a scope restores exactly what was visible before it was opened (checked as an action property)
IsOpen(it)  == it[1] \in {"open", "func", "func0", "funcN", "krfunc"}
CloseRestores == [][ (where' = where - 1) => env' = SubSeq(env, 1, Len(env) - 1) ]_vars

\* the mechanism refines the truth on histories without a deviation item
DevItems == {"forinit", "krfunc", "enum2", "enumS"}
NoDeviationItem == \A i \in 1..Len(prog) : prog[i][1] \notin DevItems
Refines == (NoDeviationItem /\ ~rej) => envD = env
\* rejections of the mechanism without a deviation item would be a flaw of the design itself
RejectOnlyByDeviation == rej => \E i \in 1..Len(prog) : prog[i][1] \in DevItems \cup {"enum", "label"}

IsProbe(it) == it[1] \in {"probe", "probeI", "probeS"}
Ended == prog # <<>> /\ IsProbe(prog[Len(prog)])
Export == Ended => PrintT("@@" \o ToJson([prog |-> prog, depth |-> where, rej |-> rej]))
=============================================================================
