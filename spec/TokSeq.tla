------------------------------- MODULE TokSeq -------------------------------
(* Arbitrary token sequences in context (C06, C18).

   TLC enumerates every sequence of at most MaxLen tokens of Alphabet, placed between each
   (prefix, suffix) pair of Contexts.  For every sequence the Brackets machine of the
   specification (the same one ParserTrace runs over observed tokens) decides whether the
   whole text is bracket-balanced, and the vocabulary decides whether it contains something
   that is not a C token or a directive the parser must refuse.

   Session.ParseEnd has exactly two outcome shapes (plus the tolerated Abort):
       Outcomes == { FileAST, ParseError("file:line:col: ..." | "file: ...") } \cup { RecursionError }
   and the contrapositive of C18:
       outcome = FileAST  =>  Balanced /\ ~Foreign                                          *)
EXTENDS Naturals, Sequences, TLC, FiniteSets, Json

CONSTANTS Alphabet,   \* set of token spellings
          Foreign,    \* subset of Alphabet: non-tokens and foreign directives (must be rejected)
          Contexts,   \* sequence of <<prefix tokens, suffix tokens>>
          MaxLen

VARIABLES seq
vars == <<seq>>

Outcomes == {"FileAST", "ParseError", "RecursionError"}

Open  == {"(", "[", "{"}
Close == [x \in {")", "]", "}"} |-> CASE x = ")" -> "(" [] x = "]" -> "[" [] x = "}" -> "{"]
RECURSIVE Brk(_, _, _)
\* bracket stack after reading s[i..]; "X" marks a mismatch (never removed)
Brk(s, i, st) ==
  IF i > Len(s) THEN st
  ELSE LET t == s[i] IN
       IF t \in Open THEN Brk(s, i+1, Append(st, t))
       ELSE IF t \in DOMAIN Close
            THEN (IF st # <<>> /\ st[Len(st)] = Close[t] THEN Brk(s, i+1, SubSeq(st, 1, Len(st)-1))
                  ELSE Append(st, "X"))
       ELSE Brk(s, i+1, st)
Whole(c)    == Contexts[c][1] \o seq \o Contexts[c][2]
Balanced(c) == Brk(Whole(c), 1, <<>>) = <<>>
HasForeign  == \E i \in 1..Len(seq) : seq[i] \in Foreign
MustReject(c) == ~Balanced(c) \/ HasForeign

Init == seq = <<>>
Grow == Len(seq) < MaxLen /\ \E t \in Alphabet : seq' = Append(seq, t)
Next == Grow
Spec == Init /\ [][Next]_vars

\* sanity of the oracle: a sequence without brackets and foreign items never "must reject"
\* (the contexts themselves are balanced)
OracleSane == (\A i \in 1..Len(seq) : seq[i] \notin Open \cup DOMAIN Close \cup Foreign)
                 => \A c \in 1..Len(Contexts) : ~MustReject(c)

Export == PrintT("@@" \o ToJson([seq |-> seq, must |-> [c \in 1..Len(Contexts) |-> MustReject(c)]]))
=============================================================================
