------------------------------ MODULE Brackets ------------------------------
(* The bracket discipline of C (6.4.6 / Annex A: every production that opens ( [ { closes it
   with the matching punctuator), as the stack machine that ParserTrace runs over observed
   tokens, here explored on its own (C18):

     * every string over ( ) [ ] { } up to MaxLen is built and classified Balanced or not;
     * MutantsUnbalanced: deleting, duplicating or kind-swapping any single bracket of a
       balanced string yields an unbalanced string - so "a single-bracket mutant of an accepted
       program is rejected" follows from "accepted => Balanced" (ParserTrace.AcceptedIsWellFormed);
   Every string is exported with its classification; the harness embeds it in expression,
   declarator and statement templates and requires rejection of every unbalanced one.      *)
EXTENDS Naturals, Sequences, TLC, FiniteSets, Json

CONSTANT MaxLen
VARIABLE s
Br    == {"(", ")", "[", "]", "{", "}"}
Open  == {"(", "[", "{"}
Match == [x \in {")", "]", "}"} |-> CASE x = ")" -> "(" [] x = "]" -> "[" [] x = "}" -> "{"]

RECURSIVE Run(_, _, _)
Run(w, i, st) == IF i > Len(w) THEN st
                 ELSE IF w[i] \in Open THEN Run(w, i+1, Append(st, w[i]))
                 ELSE IF st # <<>> /\ st[Len(st)] = Match[w[i]] THEN Run(w, i+1, SubSeq(st, 1, Len(st)-1))
                 ELSE <<"X">>                                      \* mismatch / underflow: dead
Balanced(w) == Run(w, 1, <<>>) = <<>>

Init == s = <<>>
Next == Len(s) < MaxLen /\ \E b \in Br : s' = Append(s, b)

Del(w, i)     == SubSeq(w, 1, i-1) \o SubSeq(w, i+1, Len(w))
Dup(w, i)     == SubSeq(w, 1, i) \o SubSeq(w, i, Len(w))
Swap(w, i, b) == [w EXCEPT ![i] = b]
MutantsUnbalanced ==
  Balanced(s) => \A i \in 1..Len(s) : /\ ~Balanced(Del(s, i))
                                      /\ ~Balanced(Dup(s, i))
                                      /\ \A b \in Br \ {s[i]} : ~Balanced(Swap(s, i, b))
\* the counts agree with the Catalan-like recurrence: a balanced string has even length
EvenWhenBalanced == Balanced(s) => Len(s) % 2 = 0

Export == PrintT("@@" \o ToJson([s |-> s, bal |-> Balanced(s)]))
=============================================================================
