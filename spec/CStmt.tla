------------------------------- MODULE CStmt -------------------------------
(* C99 6.8 (statements) as a leftmost-derivation transducer with the AST pycparser documents
   (C05): else binds to the nearest unmatched if (the else-less `if` is not offered for a hole
   that is directly followed by `else`), loop / switch bodies are the single following
   statement, labels and case / default prefixes attach to the statement that follows them,
   block items appear in source order, the three for-init forms land in their slots, #pragma
   lines and _Pragma operators appear once, verbatim, at their own position (wrapped with the
   following statement into a brace-less Compound exactly in sub-statement position), and the
   body of a switch is regrouped: every item goes under the nearest preceding case / default
   at the same block level, consecutive labels become siblings.

   Holes:  S(closed)  a statement; closed = TRUE when an `else` follows directly
           B          a block item (statement, declaration, static assertion, pragma line)
   Leaves are numbered (e1; e2; ... / case 1: case 2:) so that source order is observable.  *)
EXTENDS Naturals, Sequences, TLC, FiniteSets, Json

CONSTANTS MaxNodes,     \* bound on statement nodes
          Kinds         \* enabled production names

VARIABLES stack, toks, vals, cnt, nleaf, feat
vars == <<stack, toks, vals, cnt, nleaf, feat>>

Nil == "~"
S(c)  == <<"S", c, TRUE>>        \* sub-statement position (a pragma is wrapped with it)
SI    == <<"S", FALSE, FALSE>>   \* a statement that is itself a block item (a pragma is an item of its own)
B     == <<"B">>
T(s)  == <<"T", s>>
R(k, n) == <<"R", k, n>>
LEAF  == <<"LEAF">>          \* an expression operand: emits e<i>, pushes ID(e<i>)
KCONST == <<"KCONST">>       \* a case label constant

IT(names) == [k |-> "IdentifierType", names |-> names]
\* (fields starting with x are bookkeeping for the properties below: TLC cannot compare a record with
\*  the Nil string; the harness drops them)
DeclV(init, has) == [k |-> "Decl", name |-> "v", quals |-> <<>>, align |-> <<>>, storage |-> <<>>, funcspec |-> <<>>,
                     type |-> [k |-> "TypeDecl", declname |-> "v", quals |-> <<>>, type |-> IT(<<"int">>)],
                     init |-> init, bitsize |-> Nil, xinit |-> has]
PragmaP == [k |-> "Pragma", string |-> "p"]
PragmaOp == [k |-> "Pragma", string |-> [k |-> "Constant", type |-> "string", value |-> "\"q\""]]

PLine == <<T("\n#pragma p\n")>>
POp   == <<T("_Pragma"), T("("), T("\"q\""), T(")")>>
PragmaRuns == { [n |-> "lo", t |-> PLine \o POp, v |-> <<PragmaP, PragmaOp>>], [n |-> "ol", t |-> POp \o PLine, v |-> <<PragmaOp, PragmaP>>],
                [n |-> "oo", t |-> POp \o POp, v |-> <<PragmaOp, PragmaOp>>], [n |-> "lol", t |-> PLine \o POp \o PLine, v |-> <<PragmaP, PragmaOp, PragmaP>>],
                [n |-> "olo", t |-> POp \o PLine \o POp, v |-> <<PragmaOp, PragmaP, PragmaOp>>], [n |-> "ool", t |-> POp \o POp \o PLine, v |-> <<PragmaOp, PragmaOp, PragmaP>>] }
RunOf(k) == CHOOSE run \in PragmaRuns : k = "PragmaRun:" \o run.n
\* productions of a statement hole; c = closed
StmtProds(c, sub) ==
  { [n |-> "expr",     cost |-> 1, r |-> <<LEAF, T(";")>>],
    [n |-> "empty",    cost |-> 1, r |-> <<T(";"), R("EmptyStatement", 0)>>],
    [n |-> "compound0", cost |-> 1, r |-> <<T("{"), T("}"), R("Compound", 0)>>],
    [n |-> "compound1", cost |-> 1, r |-> <<T("{"), B, T("}"), R("Compound", 1)>>],
    [n |-> "compound2", cost |-> 1, r |-> <<T("{"), B, B, T("}"), R("Compound", 2)>>],
    [n |-> "compound3", cost |-> 1, r |-> <<T("{"), B, B, B, T("}"), R("Compound", 3)>>],
    [n |-> "ifelse",   cost |-> 1, r |-> <<T("if"), T("("), LEAF, T(")"), S(TRUE), T("else"), S(c), R("If", 3)>>],
    [n |-> "while",    cost |-> 1, r |-> <<T("while"), T("("), LEAF, T(")"), S(c), R("While", 2)>>],
    [n |-> "do",       cost |-> 1, r |-> <<T("do"), S(FALSE), T("while"), T("("), LEAF, T(")"), T(";"), R("DoWhile", 2)>>],
    [n |-> "for",      cost |-> 1, r |-> <<T("for"), T("("), LEAF, T(";"), LEAF, T(";"), LEAF, T(")"), S(c), R("For", 4)>>],
    [n |-> "for0",     cost |-> 1, r |-> <<T("for"), T("("), T(";"), T(";"), T(")"), S(c), R("For0", 1)>>],
    [n |-> "fordecl",  cost |-> 1, r |-> <<T("for"), T("("), T("int"), T("v"), T("="), LEAF, T(";"), LEAF, T(";"), T(")"), S(c), R("ForDecl", 3)>>],
    [n |-> "switch",   cost |-> 1, r |-> <<T("switch"), T("("), LEAF, T(")"), S(c), R("Switch", 2)>>],
    [n |-> "case",     cost |-> 1, r |-> <<T("case"), KCONST, T(":"), S(c), R("Case", 2)>>],
    [n |-> "default",  cost |-> 1, r |-> <<T("default"), T(":"), S(c), R("Default", 1)>>],
    [n |-> "label",    cost |-> 1, r |-> <<T("L"), T(":"), S(c), R("Label", 1)>>],
    [n |-> "goto",     cost |-> 1, r |-> <<T("goto"), T("L"), T(";"), R("Goto", 0)>>],
    [n |-> "break",    cost |-> 1, r |-> <<T("break"), T(";"), R("Break", 0)>>],
    [n |-> "continue", cost |-> 1, r |-> <<T("continue"), T(";"), R("Continue", 0)>>],
    [n |-> "return",   cost |-> 1, r |-> <<T("return"), T(";"), R("Return0", 0)>>],
    [n |-> "returne",  cost |-> 1, r |-> <<T("return"), LEAF, T(";"), R("Return", 1)>>] }
  \cup (IF c THEN {} ELSE { [n |-> "if", cost |-> 1, r |-> <<T("if"), T("("), LEAF, T(")"), S(FALSE), R("If", 2)>>] })
  \* a pragma in sub-statement position is wrapped with the statement that follows
  \cup (IF ~sub THEN {} ELSE
        { [n |-> "pragma_sub", cost |-> 1, r |-> <<T("\n#pragma p\n"), <<"S", c, FALSE>>, R("PragmaWrap", 1)>>],
          [n |-> "pragmaop_sub", cost |-> 1, r |-> <<T("_Pragma"), T("("), T("\"q\""), T(")"), <<"S", c, FALSE>>, R("PragmaOpWrap", 1)>>],
          [n |-> "pragma2_sub", cost |-> 1, r |-> <<T("\n#pragma p\n"), T("\n#pragma p\n"), <<"S", c, FALSE>>, R("Pragma2Wrap", 1)>>] }
        \* runs of both kinds in every order: all of them are wrapped, in source order, with the one statement that follows
        \cup { [n |-> "pragmarun_" \o run.n, cost |-> 1, r |-> run.t \o << <<"S", c, FALSE>>, R("PragmaRun:" \o run.n, 1) >>] : run \in PragmaRuns })

\* productions of a block item
ItemProds ==
  { [n |-> "item_stmt", cost |-> 0, r |-> <<SI>>],
    [n |-> "item_decl", cost |-> 1, r |-> <<T("int"), T("v"), T(";"), R("Decl0", 0)>>],
    [n |-> "item_decl_init", cost |-> 1, r |-> <<T("int"), T("v"), T("="), LEAF, T(";"), R("Decl", 1)>>],
    [n |-> "item_sassert", cost |-> 1, r |-> <<T("_Static_assert"), T("("), KCONST, T(","), T("\"m\""), T(")"), T(";"), R("StaticAssert", 1)>>],
    \* a pragma line / operator directly in a block is an item of its own
    [n |-> "item_pragma", cost |-> 1, r |-> <<T("\n#pragma p\n"), R("Pragma", 0)>>],
    [n |-> "item_pragmaop", cost |-> 1, r |-> <<T("_Pragma"), T("("), T("\"q\""), T(")"), R("PragmaOp", 0)>>] }

Top  == Head(stack)
Rest == Tail(stack)
TopN(s, n) == SubSeq(s, Len(s)-n+1, Len(s))
PopN(s, n) == SubSeq(s, 1, Len(s)-n)
IsLabel(x) == x.k \in {"Case", "Default"}

\* ---- the switch-body regrouping, stated on the item sequence
RECURSIVE Flatten(_)
\* case 1: case 2: s  is parsed  Case(1, [Case(2, [s])]) : consecutive labels become siblings
Flatten(c) == IF c.stmts # <<>> /\ IsLabel(c.stmts[1]) THEN << [c EXCEPT !.stmts = <<>>] >> \o Flatten(c.stmts[1])
              ELSE << c >>
RECURSIVE Regroup(_, _, _)
Regroup(items, i, out) ==
  IF i > Len(items) THEN out
  ELSE LET it == items[i] IN
       IF IsLabel(it) THEN Regroup(items, i+1, out \o Flatten(it))
       ELSE IF out # <<>> /\ IsLabel(out[Len(out)])
            THEN Regroup(items, i+1, [out EXCEPT ![Len(out)].stmts = Append(@, it)])     \* under the nearest preceding label
            ELSE Regroup(items, i+1, Append(out, it))                                    \* before any label: stays in the block

Build(k, a) ==
  CASE k = "EmptyStatement" -> [k |-> "EmptyStatement"]
    [] k = "Compound"  -> [k |-> "Compound", block_items |-> IF a = <<>> THEN Nil ELSE a, xitems |-> a]
    [] k = "If"        -> [k |-> "If", cond |-> a[1], iftrue |-> a[2], iffalse |-> IF Len(a) = 3 THEN a[3] ELSE Nil, xelse |-> Len(a) = 3]
    [] k = "While"     -> [k |-> "While", cond |-> a[1], stmt |-> a[2]]
    [] k = "DoWhile"   -> [k |-> "DoWhile", cond |-> a[2], stmt |-> a[1]]
    [] k = "For"       -> [k |-> "For", init |-> a[1], cond |-> a[2], next |-> a[3], stmt |-> a[4], xparts |-> <<a[1], a[2], a[3]>>]
    [] k = "For0"      -> [k |-> "For", init |-> Nil, cond |-> Nil, next |-> Nil, stmt |-> a[1], xparts |-> <<>>]
    [] k = "ForDecl"   -> [k |-> "For", init |-> [k |-> "DeclList", decls |-> << DeclV(a[1], TRUE) >>], cond |-> a[2], next |-> Nil,
                           stmt |-> a[3], xparts |-> <<a[1], a[2]>>]
    [] k = "Switch"    -> [k |-> "Switch", cond |-> a[1],
                           stmt |-> IF a[2].k = "Compound"
                                    THEN LET g == Regroup(a[2].xitems, 1, <<>>) IN [k |-> "Compound", block_items |-> g, xitems |-> g]
                                    ELSE a[2]]
    [] k = "Case"      -> [k |-> "Case", expr |-> a[1], stmts |-> << a[2] >>]
    [] k = "Default"   -> [k |-> "Default", stmts |-> << a[1] >>]
    [] k = "Label"     -> [k |-> "Label", name |-> "L", stmt |-> a[1]]
    [] k = "Goto"      -> [k |-> "Goto", name |-> "L"]
    [] k = "Break"     -> [k |-> "Break"]
    [] k = "Continue"  -> [k |-> "Continue"]
    [] k = "Return0"   -> [k |-> "Return", expr |-> Nil, xparts |-> <<>>]
    [] k = "Return"    -> [k |-> "Return", expr |-> a[1], xparts |-> <<a[1]>>]
    [] k = "PragmaWrap"   -> [k |-> "Compound", block_items |-> << PragmaP, a[1] >>, xitems |-> << PragmaP, a[1] >>]
    [] k = "PragmaOpWrap" -> [k |-> "Compound", block_items |-> << PragmaOp, a[1] >>, xitems |-> << PragmaOp, a[1] >>]
    [] k = "Pragma2Wrap"  -> [k |-> "Compound", block_items |-> << PragmaP, PragmaP, a[1] >>, xitems |-> << PragmaP, PragmaP, a[1] >>]
    [] k \in { "PragmaRun:" \o run.n : run \in PragmaRuns } ->
         [k |-> "Compound", block_items |-> Append(RunOf(k).v, a[1]), xitems |-> Append(RunOf(k).v, a[1])]
    [] k = "Decl0"     -> DeclV(Nil, FALSE)
    [] k = "Decl"      -> DeclV(a[1], TRUE)
    [] k = "StaticAssert" -> [k |-> "StaticAssert", cond |-> a[1], message |-> [k |-> "Constant", type |-> "string", value |-> "\"m\""]]
    [] k = "Pragma"    -> PragmaP
    [] k = "PragmaOp"  -> PragmaOp

Init == stack = << T("{"), B, T("}"), R("Compound", 1) >> /\ toks = <<>> /\ vals = <<>> /\ cnt = 0 /\ nleaf = 0 /\ feat = {}

Expand == /\ stack # <<>> /\ Top[1] \in {"S", "B"}
          /\ \E p \in (IF Top[1] = "S" THEN StmtProds(Top[2], Top[3]) ELSE ItemProds) :
               /\ p.n \in Kinds \/ p.n = "item_stmt"
               /\ cnt + p.cost <= MaxNodes
               /\ cnt' = cnt + p.cost
               /\ stack' = p.r \o Rest
               /\ feat' = feat \cup {p.n}
          /\ UNCHANGED <<toks, vals, nleaf>>
\* a hole that cannot be expanded any more within the budget closes with the cheapest statement
Fill == /\ stack # <<>> /\ Top[1] \in {"S", "B"} /\ cnt >= MaxNodes
        /\ stack' = << T(";"), R("EmptyStatement", 0) >> \o Rest
        /\ UNCHANGED <<toks, vals, cnt, nleaf, feat>>
Emit == /\ stack # <<>> /\ Top[1] = "T"
        /\ toks' = Append(toks, Top[2]) /\ stack' = Rest /\ UNCHANGED <<vals, cnt, nleaf, feat>>
Leaf == /\ stack # <<>> /\ Top[1] = "LEAF"
        /\ nleaf' = nleaf + 1
        /\ toks' = Append(toks, "e" \o ToString(nleaf + 1))
        /\ vals' = Append(vals, [k |-> "ID", name |-> "e" \o ToString(nleaf + 1)])
        /\ stack' = Rest /\ UNCHANGED <<cnt, feat>>
KConst == /\ stack # <<>> /\ Top[1] = "KCONST"
          /\ nleaf' = nleaf + 1
          /\ toks' = Append(toks, ToString(nleaf + 1))
          /\ vals' = Append(vals, [k |-> "Constant", type |-> "int", value |-> ToString(nleaf + 1)])
          /\ stack' = Rest /\ UNCHANGED <<cnt, feat>>
Reduce == /\ stack # <<>> /\ Top[1] = "R"
          /\ vals' = Append(PopN(vals, Top[3]), Build(Top[2], TopN(vals, Top[3])))
          /\ stack' = Rest /\ UNCHANGED <<toks, cnt, nleaf, feat>>
Next == Expand \/ Fill \/ Emit \/ Leaf \/ KConst \/ Reduce
Spec == Init /\ [][Next]_vars

Complete == stack = <<>>

\* ---- properties of the specification itself
\* source order: the numbered leaves appear in the value in the order they were emitted
RECURSIVE Leaves(_)
RECURSIVE SeqLeaves(_, _)
SeqLeaves(s, i) == IF i > Len(s) THEN <<>> ELSE Leaves(s[i]) \o SeqLeaves(s, i+1)
Leaves(x) ==
  CASE x.k = "ID" -> << x.name >>
    [] x.k = "Constant" -> IF x.type = "int" THEN << x.value >> ELSE <<>>
    [] x.k = "Compound" -> SeqLeaves(x.xitems, 1)
    [] x.k = "If" -> Leaves(x.cond) \o Leaves(x.iftrue) \o (IF x.xelse THEN Leaves(x.iffalse) ELSE <<>>)
    [] x.k = "While" -> Leaves(x.cond) \o Leaves(x.stmt)
    [] x.k = "DoWhile" -> Leaves(x.stmt) \o Leaves(x.cond)
    [] x.k = "For" -> SeqLeaves(x.xparts, 1) \o Leaves(x.stmt)
    [] x.k = "Decl" -> IF x.xinit THEN Leaves(x.init) ELSE <<>>
    [] x.k = "Switch" -> Leaves(x.cond) \o Leaves(x.stmt)
    [] x.k = "Case" -> Leaves(x.expr) \o SeqLeaves(x.stmts, 1)
    [] x.k = "Default" -> SeqLeaves(x.stmts, 1)
    [] x.k = "Label" -> Leaves(x.stmt)
    [] x.k = "Return" -> SeqLeaves(x.xparts, 1)
    [] x.k = "StaticAssert" -> Leaves(x.cond)
    [] OTHER -> <<>>
Emitted == SelectSeq(toks, LAMBDA t : \E i \in 1..nleaf : t = "e" \o ToString(i) \/ t = ToString(i))
SourceOrder == Complete => Leaves(vals[1]) = Emitted
\* after regrouping no label has a label as its first statement, and inside a switch block
\* everything after the first label is a label
RECURSIVE SwitchShape(_)
RECURSIVE SeqShape(_, _)
SeqShape(s, i) == IF i > Len(s) THEN TRUE ELSE SwitchShape(s[i]) /\ SeqShape(s, i+1)
SwitchShape(x) ==
  CASE x.k = "Switch" ->
         /\ SwitchShape(x.stmt)
         /\ (x.stmt.k = "Compound" =>
               LET b == x.stmt.xitems IN
               /\ \A i \in 1..Len(b) : IsLabel(b[i]) => (b[i].stmts = <<>> \/ ~IsLabel(b[i].stmts[1]))
               /\ \A i, j \in 1..Len(b) : (i < j /\ IsLabel(b[i])) => IsLabel(b[j]))
    [] x.k = "Compound" -> SeqShape(x.xitems, 1)
    [] x.k = "If" -> SwitchShape(x.iftrue) /\ (IF x.xelse THEN SwitchShape(x.iffalse) ELSE TRUE)
    [] x.k \in {"While", "DoWhile", "For", "Label"} -> SwitchShape(x.stmt)
    [] x.k \in {"Case", "Default"} -> SeqShape(x.stmts, 1)
    [] OTHER -> TRUE
Regrouped == Complete => SwitchShape(vals[1])

Export == Complete => PrintT("@@" \o ToJson([toks |-> toks, ast |-> vals[1], cnt |-> cnt, feat |-> feat]))
=============================================================================
