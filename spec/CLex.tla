------------------------------- MODULE CLex -------------------------------
(* Bounded instance of the lexer cursor machine (CLex0): TLC builds every text of a given
   Shape, runs token() calls to the end of input or to the first error, and checks the
   properties below on every reachable state.  Finished states are exported as
   (text, expected tokens, expected final cursor, expected error range).                  *)
EXTENDS CLex0

\* ---------------------------------------------------------------- bounded instance: all texts
CONSTANTS Shape,   \* sequence of sets of strings: a text is one element of Shape[1], then of Shape[2], ...
          Types    \* identifiers the type-lookup callback answers TRUE for
VARIABLES text, n, phase, st, out, err,
          chosen     \* history: the chunks picked from Shape[1], Shape[2], ...
vars == <<text, n, phase, st, out, err, chosen>>

Init == text = "" /\ n = 0 /\ phase = "build" /\ st = InitState("f.c") /\ out = <<>> /\ err = <<>> /\ chosen = <<>>
Grow == /\ phase = "build" /\ n < Len(Shape)
        /\ \E c \in Shape[n+1] : text' = text \o c /\ chosen' = Append(chosen, c)
        /\ n' = n + 1
        /\ UNCHANGED <<phase, st, out, err>>
Begin == phase = "build" /\ phase' = "lex" /\ UNCHANGED <<text, n, st, out, err, chosen>>
TokenCall ==
  /\ phase = "lex"
  /\ LET r == Call(text, st, Types) IN
     /\ st' = r.st
     /\ IF r.err # <<>> THEN phase' = "err" /\ err' = r.err /\ out' = out
        ELSE IF r.tok = <<>> THEN phase' = "done" /\ UNCHANGED <<err, out>>
        ELSE phase' = "lex" /\ UNCHANGED err
             /\ out' = Append(out, [ty |-> r.tok[1], val |-> r.tok[2], line |-> r.tok[3], col |-> r.tok[4], start |-> r.start])
  /\ UNCHANGED <<text, n, chosen>>
Next == Grow \/ Begin \/ TokenCall
Spec == Init /\ [][Next]_vars

\* ---------------------------------------------------------------- properties of the specification
\* every call makes progress (C09 "always makes progress and finishes")
Progress == [][phase = "lex" => (st'.pos > st.pos \/ st'.pend # st.pend \/ phase' = "done")]_vars
\* returned spellings are the characters at their recorded start, spans are ordered and disjoint,
\* and what lies between them is blank, newline or directive text
HasHash == \E i \in 0..(Len(text)-1) : Ch(text, i) = "#"
Lossless ==
  \A i \in 1..Len(out) :
     LET t == out[i] IN
     t.start >= 0 =>
       /\ Sub(text, t.start, t.start + Len(t.val)) = t.val
       /\ \A j \in 1..(i-1) : out[j].start >= 0 => out[j].start + Len(out[j].val) <= t.start
RECURSIVE CountNL(_, _)
CountNL(s, p) == IF p <= 0 THEN 0 ELSE CountNL(s, p-1) + (IF Ch(s, p-1) = "\n" THEN 1 ELSE 0)
RECURSIVE LineStart(_, _)
LineStart(s, p) == IF p <= 0 THEN 0 ELSE IF Ch(s, p-1) = "\n" THEN p ELSE LineStart(s, p-1)
\* without directives, line and column are the physical ones (5.1.1.2)
PositionExact ==
  ~HasHash => \A i \in 1..Len(out) :
     LET t == out[i] IN /\ t.line = 1 + CountNL(text, t.start) /\ t.col = t.start - LineStart(text, t.start) + 1
\* every returned literal token is well formed for its class when read on its own
LiteralsWellFormed ==
  \A i \in 1..Len(out) : IsLiteralClass(out[i].ty) => ClassOf(out[i].val, {}) = out[i].ty
\* without errors every character is blank, newline, directive text or inside exactly one token
Accounted ==
  (phase = "done" /\ ~HasHash) =>
     \A p \in 0..(Len(text)-1) :
        \/ Ch(text, p) \in Blank \cup {"\n"}
        \/ \E i \in 1..Len(out) : out[i].start <= p /\ p < out[i].start + Len(out[i].val)

\* LayoutInvariance (C17): when a text is token, gap, token, gap, ... and every gap separates
\* (contains a blank or a newline), the tokens returned are exactly the chosen tokens, each with
\* the class it has when lexed alone - whatever the gaps are (blanks, newlines, line directives)
IsSeparating(g) == \E i \in 1..Len(g) : SubSeq(g, i, i) \in {" ", "\t", "\n"}
NoPragma(g) == \A i \in 1..Len(g) : SubSeq(g, i, i) # "p" \/ i + 5 > Len(g) \/ SubSeq(g, i, i+5) # "pragma"
LayoutInvariant ==
  (phase = "done" /\ \A k \in 1..Len(chosen) : (k % 2 = 0) => (IsSeparating(chosen[k]) /\ NoPragma(chosen[k])))
  => /\ Len(out) = (Len(chosen) + 1) \div 2
     /\ \A j \in 1..Len(out) : /\ out[j].val = chosen[2*j - 1]
                               /\ out[j].ty = ClassOf(chosen[2*j - 1], Types)

Finished == phase \in {"done", "err"}
\* when the whole text is one literal: the Constant.type its spelling implies (C10)
CType == IF phase = "done" /\ Len(out) = 1 /\ IsLiteralClass(out[1].ty) /\ out[1].val = text
         THEN ConstantType(out[1].ty, out[1].val) ELSE ""
Export == Finished => PrintT("@@" \o ToJson([text |-> text, out |-> out, err |-> err, st |-> st, phase |-> phase, ctype |-> CType]))
=============================================================================
