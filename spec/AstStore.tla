------------------------------ MODULE AstStore ------------------------------
(* Copies of an AST (C15): a heap of trees with object identities.

   trees[t] = [ids : set of object ids, val : version of the tree's value, src : the tree it was
   copied from (0 for a parse)].  Actions: Parse (a fresh tree), ReprEval / Pickle(proto) /
   DeepCopy (a copy with entirely fresh ids and the same value), Mutate (changes the value of
   exactly one tree), Generate (observes a tree).
   Invariants:
     NoSharing      no object id belongs to two trees
     CopyEqual      at creation a copy has the value of its source
     Independence   Mutate(t) changes trees[t].val only
   TLC enumerates every action sequence up to MaxOps; the harness replays each on real ASTs:
   after every step each live tree is compared with what the model says (equal to its source
   version, disjoint identities, generated text as expected).                               *)
EXTENDS Naturals, Sequences, TLC, FiniteSets, Json

CONSTANTS MaxOps, Protocols, NodesPerTree
VARIABLES trees, next, ops
vars == <<trees, next, ops>>

Fresh == next..(next + NodesPerTree - 1)
Init == trees = << [ids |-> 1..NodesPerTree, val |-> 1, src |-> 0, how |-> "parse"] >> /\ next = NodesPerTree + 1 /\ ops = <<>>

Copy(how, t) == /\ Len(ops) < MaxOps /\ t \in 1..Len(trees) /\ Len(trees) < 3
                /\ trees' = Append(trees, [ids |-> Fresh, val |-> trees[t].val, src |-> t, how |-> how])
                /\ next' = next + NodesPerTree
                /\ ops' = Append(ops, <<how, t>>)
Mutate(t) == /\ Len(ops) < MaxOps /\ t \in 1..Len(trees)
             /\ trees' = [trees EXCEPT ![t].val = @ + 10 * (Len(ops) + 1)]
             /\ ops' = Append(ops, <<"mutate", t>>) /\ UNCHANGED next
Generate(t) == /\ Len(ops) < MaxOps /\ t \in 1..Len(trees)
               /\ ops' = Append(ops, <<"generate", t>>) /\ UNCHANGED <<trees, next>>
Next == \E t \in 1..Len(trees) :
           \/ Copy("repr", t) \/ Copy("deepcopy", t) \/ (\E p \in Protocols : Copy("pickle" \o ToString(p), t))
           \/ Mutate(t) \/ Generate(t)
Spec == Init /\ [][Next]_vars

NoSharing == \A a, b \in 1..Len(trees) : a # b => trees[a].ids \cap trees[b].ids = {}
Independence == [][\A t \in 1..Len(trees) : (trees'[t].val # trees[t].val) =>
                      (Len(ops') = Len(ops) + 1 /\ ops'[Len(ops')] = <<"mutate", t>>)]_vars
\* expected value versions of every tree, for the replay
Export == (Len(ops) >= 1) => PrintT("@@" \o ToJson([ops |-> ops, vals |-> [t \in 1..Len(trees) |-> trees[t].val]]))
=============================================================================
