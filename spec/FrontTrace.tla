---------------------------- MODULE FrontTrace ----------------------------
(* The AST-guided matcher: validation of an observed (token sequence, AST) pair against the C
   grammar (code -> spec for C02, C03, C05, C07, C11, C17).

   A nondeterministic pushdown machine walks the recorded AST (a flat node table, ids by object
   identity) and the recorded tokens in tandem.  It accepts iff the tokens are a yield of that
   AST under C99 6.5-6.9: every token consumed exactly once and in order, every operator at the
   level the grammar gives it (so the parentheses the grammar *requires* are present), redundant
   parentheses allowed anywhere an expression or declarator may be parenthesised, specifiers
   distributed over the declarators of a declaration, declarator chains read inside-out
   (6.7.5.1-3), switch bodies regrouped as pycparser documents.  The stack holds obligations:
     E(node, minLevel)  S(node)  SUB(node)  IL/SW/EXT/MEM/KR(list, i)  DECLS(list, i, ctx)
     SP(decl, accumulators)  DT(decl, j)  TN(typename)  INIT(node)  INITS/DESIG/ENUMS(list, i)
     V(spelling)  END(node, firstToken)
   The only nondeterminism is Paren/DParen (the parser drops redundant parentheses, so they
   are the unlogged part of the trace); a wrong guess dies at the first token that does not
   fit.  At END(node) the coordinate of the node is checked against the tokens of its own
   span (C11 CoordOK); a failure is reported as a <<"COORD", ...>> note, not a rejection, so
   that one run reports every bad coordinate.                                              *)
EXTENDS Naturals, Sequences, TLC, Json, FiniteSets, IOUtils
Traces == JsonDeserialize(IOEnv.TRACES)
CONSTANTS CheckCoords,   \* evaluate CoordOK at every END
          EmitSpans      \* print <<"SPAN", tid, node, first, last>> for every matched expression node (C17)
VARIABLES tid, pos, stk
vars == <<tid, pos, stk>>
D == Traces[tid]
Toks == D.toks
Nodes == D.nodes
NT == Len(Toks)
TV(i) == IF i <= NT THEN Toks[i][2] ELSE "<EOF>"
TT(i) == IF i <= NT THEN Toks[i][1] ELSE "<EOF>"
K(n) == Nodes[n].k
C(n) == Nodes[n].c
A(n) == Nodes[n]

StorageKw == {"auto","register","static","extern","typedef","_Thread_local"}
FuncKw == {"inline","_Noreturn"}
QualKw == {"const","restrict","volatile","_Atomic"}
TypeKw == {"void","_Bool","char","short","int","long","float","double","_Complex","signed","unsigned","__int128"}
StringTypes == {"STRING_LITERAL","WSTRING_LITERAL","U8STRING_LITERAL","U16STRING_LITERAL","U32STRING_LITERAL"}

BinLevel(op) == CASE op = "||" -> 4 [] op = "&&" -> 5 [] op = "|" -> 6 [] op = "^" -> 7 [] op = "&" -> 8
   [] op \in {"==","!="} -> 9 [] op \in {"<",">","<=",">="} -> 10 [] op \in {"<<",">>"} -> 11
   [] op \in {"+","-"} -> 12 [] op \in {"*","/","%"} -> 13
Level(n) == CASE K(n) = "ExprList" -> 1
              [] K(n) = "Assignment" -> 2
              [] K(n) = "TernaryOp" -> 3
              [] K(n) = "BinaryOp" -> BinLevel(A(n).op)
              [] K(n) = "Cast" -> 14
              [] K(n) = "UnaryOp" -> IF A(n).op \in {"p++","p--"} THEN 16 ELSE 15
              [] K(n) \in {"ArrayRef","FuncCall","StructRef","CompoundLiteral"} -> 16
              [] OTHER -> 17
V(s) == <<"V", s>>
E(n, l) == <<"E", n, l>>

\* type chain of a Decl/Typedef/Typename: modifier node ids top-down, and the innermost TypeDecl
RECURSIVE ChainFrom(_)
ChainFrom(t) == IF K(t) \in {"PtrDecl","ArrayDecl","FuncDecl"} THEN <<t>> \o ChainFrom(C(t).type) ELSE <<>>
RECURSIVE Innermost(_)
Innermost(t) == IF K(t) \in {"PtrDecl","ArrayDecl","FuncDecl"} THEN Innermost(C(t).type) ELSE t
HasDeclarator(d) == K(C(d).type) \in {"PtrDecl","ArrayDecl","FuncDecl","TypeDecl"}
BaseOf(d) == IF HasDeclarator(d) THEN C(Innermost(C(d).type)).type ELSE C(d).type
NameOf(d) == IF HasDeclarator(d) THEN A(Innermost(C(d).type)).declname ELSE ""

RECURSIVE SepList(_, _, _, _)
\* obligations for xs[i..] separated by sep, each produced by operator-tag tg with extra arg
SepList(xs, i, tg, extra) == IF i > Len(xs) THEN <<>>
                             ELSE (IF i > 1 THEN <<V(",")>> ELSE <<>>) \o << <<tg, xs[i], extra>> >> \o SepList(xs, i+1, tg, extra)
RECURSIVE Vs(_, _)
Vs(xs, i) == IF i > Len(xs) THEN <<>> ELSE <<V(xs[i])>> \o Vs(xs, i+1)

\* ---------- expressions
DirectE(n) ==
  CASE K(n) = "BinaryOp"   -> << E(C(n).left, Level(n)), V(A(n).op), E(C(n).right, Level(n)+1) >>
    [] K(n) = "Assignment" -> << E(C(n).lvalue, 15), V(A(n).op), E(C(n).rvalue, 2) >>
    [] K(n) = "TernaryOp"  -> << E(C(n).cond, 4), V("?"), E(C(n).iftrue, 1), V(":"), E(C(n).iffalse, 3) >>
    [] K(n) = "ExprList"   -> SepList(C(n).exprs, 1, "E", 2)
    [] K(n) = "Cast"       -> << V("("), <<"TN", C(n).to_type>>, V(")"), E(C(n).expr, 14) >>
    [] K(n) = "UnaryOp"    ->
         (CASE A(n).op \in {"p++","p--"} -> << E(C(n).expr, 16), V(SubSeq(A(n).op, 2, 3)) >>
            [] A(n).op \in {"++","--"} -> << V(A(n).op), E(C(n).expr, 15) >>
            [] A(n).op = "sizeof" -> IF K(C(n).expr) = "Typename"
                                     THEN << V("sizeof"), V("("), <<"TN", C(n).expr>>, V(")") >>
                                     ELSE << V("sizeof"), E(C(n).expr, 15) >>
            [] A(n).op = "_Alignof" -> << V("_Alignof"), V("("), <<"TN", C(n).expr>>, V(")") >>
            [] OTHER -> << V(A(n).op), E(C(n).expr, 14) >>)
    [] K(n) = "ArrayRef"   -> << E(C(n).name, 16), V("["), E(C(n).subscript, 1), V("]") >>
    [] K(n) = "FuncCall"   -> << E(C(n).name, 16), V("(") >> \o
                              (IF C(n).args = 0 THEN <<>> ELSE SepList(C(C(n).args).exprs, 1, "E", 2)) \o << V(")") >>
    [] K(n) = "StructRef"  -> << E(C(n).name, 16), V(A(n).type), V(A(C(n).field).name) >>
    [] K(n) = "CompoundLiteral" -> << V("("), <<"TN", C(n).type>>, V(")"), V("{"), <<"INITS", C(C(n).init).exprs, 1>>, V("}") >>
    [] K(n) = "ID"         -> << V(A(n).name) >>
    [] K(n) = "Constant"   -> IF A(n).type = "string" THEN << <<"STR", n, "">> >> ELSE << V(A(n).value) >>
    [] K(n) = "Compound"   -> << V("("), <<"S", n>>, V(")") >>            \* GNU statement expression
    [] K(n) = "Typename"   -> << <<"TN", n>> >>                           \* offsetof(type-name, ...)
    [] K(n) = "InitList"   -> << V("{"), <<"INITS", C(n).exprs, 1>>, V("}") >>

\* ---------- statements
StmtObl(n) ==
  CASE K(n) = "Compound" -> << V("{"), <<"IL", C(n).block_items, 1>>, V("}") >>
    [] K(n) = "If" -> << V("if"), V("("), E(C(n).cond, 1), V(")"), <<"SUB", C(n).iftrue>> >>
                      \o (IF C(n).iffalse = 0 THEN <<>> ELSE << V("else"), <<"SUB", C(n).iffalse>> >>)
    [] K(n) = "While" -> << V("while"), V("("), E(C(n).cond, 1), V(")"), <<"SUB", C(n).stmt>> >>
    [] K(n) = "DoWhile" -> << V("do"), <<"SUB", C(n).stmt>>, V("while"), V("("), E(C(n).cond, 1), V(")"), V(";") >>
    [] K(n) = "For" -> << V("for"), V("(") >>
                       \o (IF C(n).init = 0 THEN << V(";") >>
                           ELSE IF K(C(n).init) = "DeclList" THEN << <<"DECLS", C(C(n).init).decls, 1, "for">> >>
                           ELSE << E(C(n).init, 1), V(";") >>)
                       \o (IF C(n).cond = 0 THEN <<>> ELSE << E(C(n).cond, 1) >>) \o << V(";") >>
                       \o (IF C(n).next = 0 THEN <<>> ELSE << E(C(n).next, 1) >>) \o << V(")"), <<"SUB", C(n).stmt>> >>
    [] K(n) = "Switch" -> << V("switch"), V("("), E(C(n).cond, 1), V(")") >>
                          \o (IF K(C(n).stmt) = "Compound"
                              THEN << <<"SWB", C(n).stmt>> >>
                              ELSE << <<"SUB", C(n).stmt>> >>)
    [] K(n) = "Case" -> << V("case"), E(C(n).expr, 3), V(":"), <<"IL", C(n).stmts, 1>> >>
    [] K(n) = "Default" -> << V("default"), V(":"), <<"IL", C(n).stmts, 1>> >>
    [] K(n) = "Label" -> << V(A(n).name), V(":"), <<"SUB", C(n).stmt>> >>
    [] K(n) = "Goto" -> << V("goto"), V(A(n).name), V(";") >>
    [] K(n) = "Break" -> << V("break"), V(";") >>
    [] K(n) = "Continue" -> << V("continue"), V(";") >>
    [] K(n) = "Return" -> << V("return") >> \o (IF C(n).expr = 0 THEN <<>> ELSE << E(C(n).expr, 1) >>) \o << V(";") >>
    [] K(n) = "EmptyStatement" -> << V(";") >>
    [] K(n) = "Pragma" -> IF TV(pos) = "_Pragma"
                          THEN << V("_Pragma"), V("("), <<"STR", C(n).string, "">>, V(")") >>
                          ELSE << V("pragma") >> \o (IF A(n).string = "" THEN <<>> ELSE << V(A(n).string) >>)
    [] K(n) = "StaticAssert" -> << V("_Static_assert"), V("("), E(C(n).cond, 3) >>
                                \o (IF C(n).message = 0 THEN <<>> ELSE << V(","), <<"STR", C(n).message, "">> >>) \o << V(")") >>
    [] OTHER -> << E(n, 1), V(";") >>

IsDeclNode(n) == K(n) \in {"Decl","Typedef"}
Top == Head(stk)
Rest == Tail(stk)
Tag == Top[1]

Init == tid \in 1..Len(Traces) /\ pos = 1 /\ stk = << <<"EXT", C(Traces[tid].root).ext, 1>> >>

MatchV == /\ Tag = "V" /\ TV(pos) = Top[2] /\ pos' = pos + 1 /\ stk' = Rest
\* ---- expressions
Paren == /\ Tag = "E" /\ TV(pos) = "(" /\ pos' = pos + 1 /\ stk' = << E(Top[2], 1), V(")") >> \o Rest
Dir   == /\ Tag = "E" /\ Level(Top[2]) >= Top[3] /\ stk' = DirectE(Top[2]) \o << <<"END", Top[2], pos>> >> \o Rest /\ UNCHANGED pos
Str   == /\ Tag = "STR" /\ TT(pos) \in StringTypes
         /\ LET n == Top[2] acc == Top[3]
                new == IF acc = "" THEN TV(pos) ELSE SubSeq(acc, 1, Len(acc)-1) \o SubSeq(TV(pos), 2, Len(TV(pos)))
            IN /\ pos' = pos + 1
               /\ \/ new = A(n).value /\ TT(pos+1) \notin StringTypes /\ stk' = Rest
                  \/ TT(pos+1) \in StringTypes /\ stk' = << <<"STR", n, new>> >> \o Rest
\* ---- statements and lists
\* a Compound in statement position is a block, or - when the next token is '(' - a GNU statement
\* expression used as an expression statement
\* a Compound that does not start with '{' is the wrapper pycparser puts around "#pragma ... statement"
\* in sub-statement position (c_parser: pragmacomp_or_statement): its items follow without braces
PragmaWrap == /\ Tag = "S" /\ K(Top[2]) = "Compound" /\ TV(pos) \notin {"{", "("}
              /\ stk' = << <<"IL", C(Top[2]).block_items, 1>> >> \o Rest /\ UNCHANGED pos
Stmt  == /\ Tag = "S" /\ ~(K(Top[2]) = "Compound" /\ TV(pos) # "{")
         /\ stk' = (IF K(Top[2]) \in {"Compound","If","While","DoWhile","For","Switch","Case","Default","Label","Goto","Break","Continue","Return","EmptyStatement","Pragma","StaticAssert"} THEN StmtObl(Top[2]) \o << <<"END", Top[2], pos>> >> ELSE StmtObl(Top[2])) \o Rest /\ UNCHANGED pos
StmtExpr == /\ Tag = "S" /\ K(Top[2]) = "Compound" /\ TV(pos) = "("
            /\ stk' = << E(Top[2], 1), V(";") >> \o Rest /\ UNCHANGED pos
Sub   == /\ Tag = "SUB" /\ UNCHANGED pos
         /\ LET n == Top[2] IN
            IF K(n) = "Compound" /\ TV(pos) # "{"
            THEN stk' = << <<"IL", C(n).block_items, 1>> >> \o Rest     \* pragma-wrapped sub-statement
            ELSE stk' = << <<"S", n>> >> \o Rest
IL    == /\ Tag = "IL" /\ UNCHANGED pos
         /\ LET xs == Top[2] i == Top[3] IN
            IF i > Len(xs) THEN stk' = Rest
            ELSE IF IsDeclNode(xs[i]) THEN stk' = << <<"DECLS", xs, i, "block">> >> \o Rest
            ELSE stk' = << <<"S", xs[i]>>, <<"IL", xs, i+1>> >> \o Rest
\* the body of a switch: a block, or - without '{' - the wrapper around "#pragma ... statement"
SWB   == /\ Tag = "SWB" /\ UNCHANGED pos
         /\ LET n == Top[2] IN
            IF TV(pos) = "{" THEN stk' = << V("{"), <<"SW", C(n).block_items, 1>>, V("}") >> \o Rest
            ELSE stk' = << <<"IL", C(n).block_items, 1>> >> \o Rest
SW    == /\ Tag = "SW" /\ UNCHANGED pos
         /\ LET xs == Top[2] i == Top[3] IN
            IF i > Len(xs) THEN stk' = Rest
            ELSE IF IsDeclNode(xs[i]) THEN stk' = << <<"DECLS", xs, i, "sw">> >> \o Rest
            ELSE stk' = << <<"S", xs[i]>>, <<"SW", xs, i+1>> >> \o Rest
Ext   == /\ Tag = "EXT"
         /\ LET xs == Top[2] i == Top[3] IN
            \/ /\ TV(pos) = ";" /\ pos' = pos + 1 /\ UNCHANGED stk          \* stray ; at file scope
            \/ /\ i > Len(xs) /\ stk' = Rest /\ UNCHANGED pos
            \/ /\ i <= Len(xs) /\ UNCHANGED pos
               /\ IF K(xs[i]) = "FuncDef"
                  THEN LET f == xs[i] d == C(f).decl IN
                       stk' = << <<"SP", d, <<>>, <<>>, <<>>, <<>>, 0, 0, 0>>, <<"DT", d, Len(ChainFrom(C(d).type))>>, <<"END", d, pos>> >>
                              \o (IF Nodes[f].has_param_decls THEN << <<"KR", C(f).param_decls, 1>> >> ELSE <<>>)
                              \o << <<"S", C(f).body>>, <<"END", f, pos>>, <<"EXT", xs, i+1>> >> \o Rest
                  ELSE IF IsDeclNode(xs[i]) THEN stk' = << <<"DECLS", xs, i, "ext">> >> \o Rest
                  ELSE stk' = << <<"S", xs[i]>>, <<"EXT", xs, i+1>> >> \o Rest
KR    == /\ Tag = "KR" /\ UNCHANGED pos
         /\ LET xs == Top[2] i == Top[3] IN
            IF i > Len(xs) THEN stk' = Rest ELSE stk' = << <<"DECLS", xs, i, "kr">> >> \o Rest
\* ---- declarations: DECLS(list, i, ctx) = specifiers of list[i], then declarators list[i..j] joined by commas, then ;
After(ctx, xs, i) == CASE ctx = "block" -> <<"IL", xs, i>> [] ctx = "sw" -> <<"SW", xs, i>> [] ctx = "ext" -> <<"EXT", xs, i>>
                       [] ctx = "kr" -> <<"KR", xs, i>> [] ctx = "mem" -> <<"MEM", xs, i>> [] ctx = "for" -> <<"NOP">>
DeclaratorObl(d) == (IF HasDeclarator(d) THEN << <<"DT", d, Len(ChainFrom(C(d).type))>> >> ELSE <<>>)
                    \o (IF K(d) = "Decl" /\ C(d).bitsize # 0 THEN << V(":"), E(C(d).bitsize, 3) >> ELSE <<>>)
                    \o (IF K(d) = "Decl" /\ C(d).init # 0 THEN << V("="), <<"INIT", C(d).init>> >> ELSE <<>>)
Decls == /\ Tag = "DECLS" /\ UNCHANGED pos
         /\ LET xs == Top[2] i == Top[3] ctx == Top[4] d == xs[i] IN
            stk' = << <<"SP", d, <<>>, <<>>, <<>>, <<>>, 0, 0, 0>> >> \o DeclaratorObl(d) \o << <<"END", d, pos>>, <<"DC", xs, i, ctx>> >> \o Rest
SameSpecs(d1, d2) == /\ K(d1) = K(d2) /\ A(d1).quals = A(d2).quals /\ A(d1).storage = A(d2).storage
                     /\ (K(d1) = "Decl" => A(d1).funcspec = A(d2).funcspec)
                     /\ LET b1 == BaseOf(d1) b2 == BaseOf(d2) IN
                        IF K(b1) = "IdentifierType" THEN K(b2) = "IdentifierType" /\ A(b1).names = A(b2).names ELSE b1 = b2
DC    == /\ Tag = "DC"
         /\ LET xs == Top[2] i == Top[3] ctx == Top[4] IN
            \/ /\ TV(pos) = "," /\ i < Len(xs) /\ IsDeclNode(xs[i+1]) /\ SameSpecs(xs[i], xs[i+1])
               /\ pos' = pos + 1
               /\ stk' = DeclaratorObl(xs[i+1]) \o << <<"END", xs[i+1], pos+1>>, <<"DC", xs, i+1, ctx>> >> \o Rest
            \/ /\ TV(pos) = ";" /\ pos' = pos + 1
               /\ stk' = (IF ctx = "for" THEN <<>> ELSE << After(ctx, xs, i+1) >>) \o Rest
\* ---- specifier run: <<"SP", d, storage, quals, funcspec, names, base, nalign>>
\* Named deviations of pycparser's AST that the matcher tolerates (they lose no token the
\* properties speak of, or are stated by the AST design):
\*   DevTypenameHasNoStorage   an unnamed parameter is a Typename, which has no storage / funcspec
\*                             field: such specifiers on an abstract parameter are not recorded
\*   DevImplicitInt            a declaration without type specifier gets IdentifierType(['int'])
NoAtomic(q) == SelectSeq(q, LAMBDA x : x # "_Atomic")
SpEnd(d, st, qu, fs, nm, base, na, at) ==
   /\ (K(d) \in {"Decl","Typedef"} => st = A(d).storage)
   \* after an _Atomic(type-name) specifier pycparser appends "_Atomic" at the end of quals
   /\ IF at = 2 THEN NoAtomic(qu) = NoAtomic(A(d).quals) /\ \E i \in 1..Len(A(d).quals) : A(d).quals[i] = "_Atomic"
      ELSE qu = A(d).quals
   /\ (K(d) = "Decl" => fs = A(d).funcspec /\ na = Len(C(d).align))
   /\ LET b == BaseOf(d) IN
      IF K(b) = "IdentifierType"
      THEN base = 0 /\ (nm = A(b).names \/ (nm = <<>> /\ A(b).names = <<"int">>))
      ELSE base = b /\ nm = <<>>
IsSpecTok(nm, base) ==
   \/ TV(pos) \in StorageKw \cup FuncKw \cup QualKw \cup TypeKw \cup {"struct","union","enum","_Alignas"}
   \/ TT(pos) = "TYPEID" /\ nm = <<>> /\ base = 0
SP    == /\ Tag = "SP"
         /\ LET d == Top[2] st == Top[3] qu == Top[4] fs == Top[5] nm == Top[6] base == Top[7] na == Top[8] at == Top[9]
                Set(s2, q2, f2, n2, b2, a2) == << <<"SP", d, s2, q2, f2, n2, b2, a2, at>> >>
            IN
            IF at = 1 /\ TV(pos) = ")"
            THEN /\ pos' = pos+1 /\ stk' = << <<"SP", d, st, Append(qu, "_Atomic"), fs, nm, base, na, 2>> >> \o Rest
            ELSE IF TV(pos) = "_Atomic" /\ TV(pos+1) = "(" /\ at # 1
            THEN /\ pos' = pos+2 /\ stk' = << <<"SP", d, st, qu, fs, nm, base, na, 1>> >> \o Rest
            ELSE IF ~IsSpecTok(nm, base)
            THEN /\ SpEnd(d, st, qu, fs, nm, base, na, at) /\ stk' = Rest /\ UNCHANGED pos
            ELSE
              \/ /\ TV(pos) \in StorageKw /\ pos' = pos+1 /\ stk' = Set(Append(st, TV(pos)), qu, fs, nm, base, na) \o Rest
              \/ /\ TV(pos) \in FuncKw /\ pos' = pos+1 /\ stk' = Set(st, qu, Append(fs, TV(pos)), nm, base, na) \o Rest
              \/ /\ TV(pos) \in QualKw /\ ~(TV(pos) = "_Atomic" /\ TV(pos+1) = "(")
                 /\ pos' = pos+1 /\ stk' = Set(st, Append(qu, TV(pos)), fs, nm, base, na) \o Rest
              \/ /\ TV(pos) \in TypeKw /\ base = 0 /\ pos' = pos+1 /\ stk' = Set(st, qu, fs, Append(nm, TV(pos)), base, na) \o Rest
              \/ /\ TT(pos) = "TYPEID" /\ nm = <<>> /\ base = 0 /\ pos' = pos+1 /\ stk' = Set(st, qu, fs, <<TV(pos)>>, base, na) \o Rest
              \/ /\ TV(pos) = "_Alignas" /\ K(d) = "Decl" /\ na < Len(C(d).align) /\ pos' = pos+1
                 /\ LET al == C(C(d).align[na+1]).alignment IN
                    stk' = << V("("), (IF K(al) = "Typename" THEN <<"TN", al>> ELSE E(al, 3)), V(")") >> \o Set(st, qu, fs, nm, base, na+1) \o Rest
              \/ /\ TV(pos) = "_Alignas" /\ K(d) # "Decl" /\ TV(pos+1) = "(" /\ pos' = pos+2
                 /\ stk' = << <<"SKIPPAR", 1>> >> \o Set(st, qu, fs, nm, base, na) \o Rest
              \/ /\ TV(pos) \in {"struct","union"} /\ nm = <<>> /\ base = 0
                 /\ LET b == BaseOf(d) IN
                    /\ K(b) = (IF TV(pos) = "struct" THEN "Struct" ELSE "Union")
                    /\ pos' = pos+1
                    /\ stk' = (IF A(b).name = "" THEN <<>> ELSE << V(A(b).name) >>)
                              \o (IF Nodes[b].has_decls /\ TV(pos + (IF A(b).name = "" THEN 1 ELSE 2)) = "{"
                                  THEN << V("{"), <<"MEM", C(b).decls, 1>>, V("}") >> ELSE <<>>)
                              \o Set(st, qu, fs, nm, b, na) \o Rest
              \/ /\ TV(pos) = "enum" /\ nm = <<>> /\ base = 0
                 /\ LET b == BaseOf(d) IN
                    /\ K(b) = "Enum" /\ pos' = pos+1
                    /\ stk' = (IF A(b).name = "" THEN <<>> ELSE << V(A(b).name) >>)
                              \o (IF C(b).values # 0 /\ TV(pos + (IF A(b).name = "" THEN 1 ELSE 2)) = "{"
                                  THEN << V("{"), <<"ENUMS", C(C(b).values).enumerators, 1>>, V("}") >> ELSE <<>>)
                              \o Set(st, qu, fs, nm, b, na) \o Rest
Enums == /\ Tag = "ENUMS"
         /\ LET xs == Top[2] i == Top[3] IN
            \/ /\ i <= Len(xs) /\ UNCHANGED pos
               /\ stk' = (IF i > 1 THEN <<V(",")>> ELSE <<>>) \o << V(A(xs[i]).name) >>
                         \o (IF C(xs[i]).value = 0 THEN <<>> ELSE << V("="), E(C(xs[i]).value, 3) >>)
                         \o << <<"END", xs[i], IF i > 1 THEN pos + 1 ELSE pos>>, <<"ENUMS", xs, i+1>> >> \o Rest
            \/ /\ i > Len(xs) /\ TV(pos) = "," /\ pos' = pos+1 /\ stk' = Rest      \* trailing comma
            \/ /\ i > Len(xs) /\ TV(pos) # "," /\ stk' = Rest /\ UNCHANGED pos
Mem   == /\ Tag = "MEM" /\ UNCHANGED pos
         /\ LET xs == Top[2] i == Top[3] IN
            IF i > Len(xs) THEN stk' = Rest
            ELSE IF IsDeclNode(xs[i]) THEN stk' = << <<"DECLS", xs, i, "mem">> >> \o Rest
            ELSE stk' = << <<"S", xs[i]>>, <<"MEM", xs, i+1>> >> \o Rest
MemSemi == /\ Tag = "MEM" /\ TV(pos) = ";" /\ pos' = pos+1 /\ UNCHANGED stk    \* extra ; inside struct bodies
\* ---- type names: specifier-qualifier list + abstract declarator
TN    == /\ Tag = "TN" /\ UNCHANGED pos
         /\ LET t == Top[2] IN stk' = << <<"SP", t, <<>>, <<>>, <<>>, <<>>, 0, 0, 0>>, <<"DT", t, Len(ChainFrom(C(t).type))>> >> \o Rest
\* ---- declarators: <<"DT", d, j>>; chain top-down c[1..k]; the outermost syntactic constructor is c[j]
DimObl(a) == Vs(A(a).dim_quals, 1) \o (IF C(a).dim = 0 THEN <<>>
                                      ELSE IF K(C(a).dim) = "ID" /\ A(C(a).dim).name = "*" THEN << V("*") >>   \* the [*] form
                                      ELSE << E(C(a).dim, 2) >>)
ParamObl(p) == CASE K(p) = "Decl" -> << <<"SP", p, <<>>, <<>>, <<>>, <<>>, 0, 0, 0>>, <<"DT", p, Len(ChainFrom(C(p).type))>>, <<"ENDP", p>> >>
                 [] K(p) = "Typename" -> << <<"TN", p>> >>
                 [] K(p) = "ID" -> << V(A(p).name) >>
                 [] K(p) = "EllipsisParam" -> << V("...") >>
RECURSIVE ParamsObl(_, _)
ParamsObl(xs, i) == IF i > Len(xs) THEN <<>> ELSE (IF i > 1 THEN <<V(",")>> ELSE <<>>) \o ParamObl(xs[i]) \o ParamsObl(xs, i+1)
DT    == /\ Tag = "DT" /\ UNCHANGED pos
         /\ LET d == Top[2] j == Top[3] ch == ChainFrom(C(d).type) IN
            IF j = 0 THEN stk' = (IF NameOf(d) = "" THEN <<>>
                                  ELSE << V(NameOf(d)), <<"END", Innermost(C(d).type), pos>> >>) \o Rest
            ELSE LET m == ch[j]
                     inner == IF j > 1 /\ K(ch[j-1]) = "PtrDecl" THEN << V("("), <<"DT", d, j-1>>, V(")") >> ELSE << <<"DT", d, j-1>> >>
                 IN CASE K(m) = "PtrDecl" -> stk' = << V("*") >> \o Vs(A(m).quals, 1) \o << <<"DT", d, j-1>> >> \o Rest
                      [] K(m) = "ArrayDecl" -> stk' = inner \o << V("[") >> \o DimObl(m) \o << V("]") >> \o Rest
                      [] K(m) = "FuncDecl" -> stk' = inner \o << V("(") >>
                                                    \o (IF C(m).args = 0 THEN <<>> ELSE ParamsObl(C(C(m).args).params, 1)) \o << V(")") >> \o Rest
DParen == /\ Tag = "DT" /\ TV(pos) = "(" /\ pos' = pos+1 /\ stk' = << Top, V(")") >> \o Rest    \* redundant ( declarator )
\* ---- initialisers
InitO == /\ Tag = "INIT" /\ UNCHANGED pos
         /\ LET n == Top[2] IN
            CASE K(n) = "InitList" -> stk' = << V("{"), <<"INITS", C(n).exprs, 1>>, V("}") >> \o Rest
              [] K(n) = "NamedInitializer" -> stk' = << <<"DESIG", C(n).name, 1>>, V("="), <<"INIT", C(n).expr>> >> \o Rest
              [] OTHER -> stk' = << E(n, 2) >> \o Rest
Inits == /\ Tag = "INITS"
         /\ LET xs == Top[2] i == Top[3] IN
            \/ /\ i <= Len(xs) /\ UNCHANGED pos
               /\ stk' = (IF i > 1 THEN <<V(",")>> ELSE <<>>) \o << <<"INIT", xs[i]>>, <<"INITS", xs, i+1>> >> \o Rest
            \/ /\ i > Len(xs) /\ TV(pos) = "," /\ pos' = pos+1 /\ stk' = Rest
            \/ /\ i > Len(xs) /\ TV(pos) # "," /\ stk' = Rest /\ UNCHANGED pos
Desig == /\ Tag = "DESIG"
         /\ LET xs == Top[2] i == Top[3] IN
            \/ /\ i > Len(xs) /\ stk' = Rest /\ UNCHANGED pos
            \/ /\ i <= Len(xs) /\ TV(pos) = "." /\ K(xs[i]) = "ID" /\ pos' = pos+1
               /\ stk' = << V(A(xs[i]).name), <<"DESIG", xs, i+1>> >> \o Rest
            \/ /\ i <= Len(xs) /\ TV(pos) = "[" /\ pos' = pos+1
               /\ stk' = << E(xs[i], 3), V("]"), <<"DESIG", xs, i+1>> >> \o Rest
\* tokens of a parenthesised group that has no counterpart in the AST (see DevTypenameHasNoStorage)
SkipPar == /\ Tag = "SKIPPAR" /\ pos <= NT /\ pos' = pos + 1
           /\ LET dd == IF TV(pos) = "(" THEN Top[2] + 1 ELSE IF TV(pos) = ")" THEN Top[2] - 1 ELSE Top[2] IN
              stk' = (IF dd = 0 THEN <<>> ELSE << <<"SKIPPAR", dd>> >>) \o Rest
Nop   == /\ Tag = "NOP" /\ stk' = Rest /\ UNCHANGED pos
\* C11 CoordOK: the coordinate names file, line and column of a token inside the node's own span;
\* for identifiers, constants and declared names exactly the token that spells them
NameTokKinds == {"ID", "Constant"}
CoordIn(n, a, b) ==
  LET c == Nodes[n].coord IN
  /\ c # <<>>
  /\ \E i \in a..b : /\ Toks[i][5] = c[1] /\ Toks[i][3] = c[2] /\ Toks[i][4] = c[3]
                       /\ (K(n) = "ID" => Toks[i][2] = A(n).name)
                       /\ (K(n) = "Constant" /\ A(n).type # "string" => Toks[i][2] = A(n).value)
                       /\ (K(n) = "TypeDecl" /\ A(n).declname # "" => Toks[i][2] = A(n).declname)
                       /\ (K(n) = "Enumerator" => Toks[i][2] = A(n).name)
\* parameter declarations are expanded eagerly (ParamsObl), so their first token is not known when the
\* obligation is built: the span is taken back to the nearest '(' or ',' at the same bracket depth
RECURSIVE BackToSep(_, _)
BackToSep(i, depth) == IF i <= 1 THEN 1
                       ELSE LET v == TV(i-1) IN
                            IF depth = 0 /\ v \in {"(", ","} THEN i
                            ELSE BackToSep(i-1, IF v \in {")", "]", "}"} THEN depth + 1
                                                  ELSE IF v \in {"(", "[", "{"} THEN depth - 1 ELSE depth)
EndP  == /\ Tag = "ENDP" /\ stk' = Rest /\ UNCHANGED pos
         /\ (~CheckCoords \/ CoordIn(Top[2], BackToSep(pos, 0), pos-1)
             \/ PrintT(<<"COORD", tid, K(Top[2]), Top[2], BackToSep(pos, 0), pos-1>>))
ExprKinds == {"BinaryOp","Assignment","TernaryOp","UnaryOp","Cast","ArrayRef","FuncCall","StructRef","ID","Constant","CompoundLiteral"}
End   == /\ Tag = "END" /\ stk' = Rest /\ UNCHANGED pos
         /\ (~EmitSpans \/ K(Top[2]) \notin ExprKinds \/ PrintT(<<"SPAN", tid, Top[2], Top[3], pos-1>>))
         /\ (~CheckCoords \/ CoordIn(Top[2], Top[3], pos-1)
             \/ PrintT(<<"COORD", tid, K(Top[2]), Top[2], Top[3], pos-1>>))

Next == /\ stk # <<>> /\ UNCHANGED tid
        /\ (MatchV \/ Paren \/ Dir \/ Str \/ Stmt \/ StmtExpr \/ PragmaWrap \/ Sub \/ IL \/ SWB \/ SW \/ Ext \/ KR \/ Decls \/ DC \/ SP \/ Enums \/ Mem \/ MemSemi
            \/ TN \/ DT \/ DParen \/ InitO \/ Inits \/ Desig \/ Nop \/ SkipPar \/ End \/ EndP)
Spec == Init /\ [][Next]_vars
Acc == (stk = <<>> /\ pos = NT + 1) => PrintT(<<"ACC", tid>>)
\* diagnosis of a rejected trace: the furthest token reached
Diag == PrintT(<<"AT", tid, pos>>)
=============================================================================
