------------------------------ MODULE Session ------------------------------
(* Instance lifecycle (C12) and interleavings of several instances (C13).

   A parser instance i owns a front-end state fe[i] (the composed state of ParserTrace: lexer
   cursor, token buffer and index, scope stack, pending token).  What a parse call leaves
   behind depends on the program: `Leaves[k]` says which components program kind k dirties
   (open scopes, typedef names at file scope, a pending pragma token, a changed file name or
   line number, a consumed buffer).  The only statement of C12 is that

       ParseBegin(i, k)   re-establishes FrontInit in EVERY component, whatever fe[i] was,

   so that the result of the n-th call is Solo(k): the result the same program has on a fresh
   instance.  The model makes the dependence explicit - Result(k, f) is Solo(k) only when the
   components program k is Sensitive to are clean - and carries a constant ResetMask so that
   TLC shows the reset of each component to be necessary (MC_SessionNoReset* are expected to
   violate HistoryIndependence; they are the vacuity guard of this module).

   Several instances (C13): steps of different instances interleave arbitrarily at token
   granularity; fe[i] changes only in steps of i (NonInterference) and `globals` - the
   module-level tables of lexer, parser, AST and generator - is changed by no action (Frame).
   TLC enumerates every schedule; each is replayed with a scheduling lexer.                 *)
EXTENDS Naturals, Sequences, TLC, FiniteSets, Json

CONSTANTS Kinds,        \* program kinds of the palette
          Leaves,       \* [Kinds -> SUBSET Components] what a call of that kind dirties
          Sensitive,    \* [Kinds -> SUBSET Components] which dirty components would change its result
          MaxCalls,
          ResetMask,    \* components ParseBegin resets (all of them in the real design)
          Inst,         \* instance ids for the interleaving part
          Steps         \* [Inst -> Nat] token() calls of each instance's parse

Components == {"scopes", "typedefs", "pending", "file", "line", "buffer"}
FrontInit  == {}                           \* the set of dirty components: none

VARIABLES hist,      \* C12: kinds called so far on the one instance
          fe1,       \* C12: dirty components of the one instance
          results,   \* C12: results so far: "solo" or "tainted"
          pc,        \* C13: steps done by each instance
          fe,        \* C13: per-instance state: number of own steps seen
          globals,   \* C13: module-level state
          sched      \* C13: history of the schedule
vars == <<hist, fe1, results, pc, fe, globals, sched>>

Result(k, f) == IF Sensitive[k] \cap f = {} THEN "solo" ELSE "tainted"

Init == /\ hist = <<>> /\ fe1 = FrontInit /\ results = <<>>
        /\ pc = [i \in Inst |-> 0] /\ fe = [i \in Inst |-> 0] /\ globals = "tables" /\ sched = <<>>

\* ---- one instance, many calls
Call(k) == /\ Len(hist) < MaxCalls
           /\ LET begun == fe1 \ ResetMask                     \* ParseBegin
              IN /\ results' = Append(results, Result(k, begun))
                 /\ fe1' = begun \cup Leaves[k]                 \* the parse itself, to its end or to its failure
           /\ hist' = Append(hist, k)
           /\ UNCHANGED <<pc, fe, globals, sched>>

\* ---- several instances, one call each, interleaved at token granularity
Step(i) == /\ pc[i] < Steps[i]
           /\ pc' = [pc EXCEPT ![i] = @ + 1]
           /\ fe' = [fe EXCEPT ![i] = @ + 1]
           /\ sched' = Append(sched, i)
           /\ UNCHANGED <<hist, fe1, results, globals>>

Next == (\E k \in Kinds : Call(k)) \/ (\E i \in Inst : Step(i))
Spec == Init /\ [][Next]_vars

HistoryIndependence == \A n \in 1..Len(results) : results[n] = "solo"
NonInterference     == \A i \in Inst : fe[i] = pc[i]
Frame               == [][globals' = globals]_vars

SchedComplete == \A i \in Inst : pc[i] = Steps[i]
ExportHist  == (hist # <<>> /\ sched = <<>>) => PrintT("@@" \o ToJson([hist |-> hist]))
ExportSched == (SchedComplete /\ hist = <<>> /\ sched # <<>>) => PrintT("@@" \o ToJson([sched |-> sched]))
=============================================================================
